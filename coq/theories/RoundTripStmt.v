(** RoundTripStmt: the parser model (ParseImpl) inverts the statement printer of the documented
    grammar (PrinterStmt): [parse_tokens (pr_prog full p)] returns exactly [map (ex_stmt full) p]
    for every program [p] of the documented grammar.  Used by Props/C09b.v. *)
From Aplang Require Import Base FloatX Token Ast ParseImpl Printer PrinterStmt RoundTrip ParseSpec ParseProofs.
From Aplang.Gen Require Import Generated.
Open Scope nat_scope.

(** * Part A: more fuel never changes an answer *)

Definition fle {A} (r1 r2 : pres A) : Prop := r1 = PFuel \/ r1 = r2.

Lemma fle_refl {A} (r : pres A) : fle r r.
Proof. right. reflexivity. Qed.
Lemma fle_fuel {A} (r : pres A) : fle PFuel r.
Proof. left. reflexivity. Qed.
Lemma fle_bind {A B} (m1 m2 : pres A) (k1 k2 : A -> pstate -> pres B) :
  fle m1 m2 -> (forall x st, fle (k1 x st) (k2 x st)) -> fle (pbind m1 k1) (pbind m2 k2).
Proof. intros [->| ->] H; [left; reflexivity|]. destruct m2; cbn [pbind]; auto using fle_refl. Qed.
Lemma fle_prev {A} st (k1 k2 : token -> pres A) :
  (forall t, fle (k1 t) (k2 t)) -> fle (with_prev st k1) (with_prev st k2).
Proof. intros H. unfold with_prev. destruct (prevt st); [apply H|apply fle_refl]. Qed.
Lemma fle_peek {A} st (k1 k2 : token -> pres A) :
  (forall t, fle (k1 t) (k2 t)) -> fle (with_peek st k1) (with_peek st k2).
Proof. intros H. unfold with_peek. destruct (rest st); [apply fle_refl|apply H]. Qed.
Lemma fle_restore {A} a b (r1 r2 : pres A) : fle r1 r2 -> fle (restore a b r1) (restore a b r2).
Proof. intros [->| ->]; [left; reflexivity|apply fle_refl]. Qed.

Ltac fle_step :=
  first
  [ apply fle_refl
  | apply fle_fuel
  | match goal with H : _ |- _ => apply H end
  | apply fle_bind; [|intros ? ?]
  | apply fle_prev; intros ?
  | apply fle_peek; intros ?
  | apply fle_restore
  | match goal with |- fle (match ?x with _ => _ end) _ => destruct x end ].
Ltac fle_auto := repeat fle_step.

Definition mono_expr (f : nat) : Prop := forall f', f <= f' ->
  (forall l st, fle (p_level f l st) (p_level f' l st)) /\
  (forall rg e st, fle (p_loop f rg e st) (p_loop f' rg e st)) /\
  (forall e sp st, fle (p_access f e sp st) (p_access f' e sp st)) /\
  (forall lim n st, fle (p_items f lim n st) (p_items f' lim n st)) /\
  (forall st, fle (p_primary f st) (p_primary f' st)).

Lemma mono_expr_all : forall f, mono_expr f.
Proof.
  induction f as [|f IH]; intros f' Hle.
  { repeat split; intros; apply fle_fuel. }
  destruct f' as [|f']; [lia|]. destruct (IH f' ltac:(lia)) as (IHl & IHlo & IHa & IHi & IHp).
  clear IH Hle. repeat split.
  - intros l st. destruct l; cbn [p_level]; fle_auto.
  - intros rg e st. cbn [p_loop]. fle_auto.
  - intros e sp st. cbn [p_access]. fle_auto.
  - intros lim n st. cbn [p_items]. fle_auto.
  - intros st. cbn [p_primary]. fle_auto.
Qed.

Lemma expression_mono f f' st : f <= f' -> fle (p_expression f st) (p_expression f' st).
Proof. intros H. unfold p_expression. apply (mono_expr_all f f' H). Qed.

Lemma params_mono : forall f f' n st, f <= f' -> fle (p_params f n st) (p_params f' n st).
Proof.
  induction f as [|f IH]; intros f' n st Hle; [apply fle_fuel|].
  destruct f' as [|f']; [lia|]. specialize (IH f'). cbn [p_params].
  destruct (255 <=? n)%N; [apply fle_refl|]. apply fle_bind; [apply fle_refl|]. intros t st1.
  destruct (match_tok TComma st1) as [[|] st2]; [|apply fle_refl].
  apply fle_bind; [apply IH; lia|]. intros; apply fle_refl.
Qed.

Lemma import_names_mono : forall f f' lb acc st, f <= f' ->
  fle (p_import_names f lb acc st) (p_import_names f' lb acc st).
Proof.
  induction f as [|f IH]; intros f' lb acc st Hle; [apply fle_fuel|].
  destruct f' as [|f']; [lia|]. specialize (IH f'). cbn [p_import_names].
  destruct (63 <=? N.of_nat (length acc))%N; [apply fle_refl|]. apply fle_bind; [apply fle_refl|]. intros t st1.
  destruct (match_tok TComma st1) as [[|] st2]; [|apply fle_refl]. apply IH. lia.
Qed.

Definition mono_stmt (f : nat) : Prop := forall f', f <= f' ->
  (forall st, fle (p_declaration f st) (p_declaration f' st)) /\
  (forall st, fle (p_procedure f st) (p_procedure f' st)) /\
  (forall st, fle (p_statement f st) (p_statement f' st)) /\
  (forall st, fle (p_expr_stmt f st) (p_expr_stmt f' st)) /\
  (forall lb acc st, fle (p_block f lb acc st) (p_block f' lb acc st)) /\
  (forall t st, fle (p_if f t st) (p_if f' t st)) /\
  (forall st, fle (p_repeat_times f st) (p_repeat_times f' st)) /\
  (forall st, fle (p_repeat_until f st) (p_repeat_until f' st)) /\
  (forall st, fle (p_for_each f st) (p_for_each f' st)) /\
  (forall st, fle (p_import f st) (p_import f' st)).

Lemma mono_stmt_all : forall f, mono_stmt f.
Proof.
  induction f as [|f IH]; intros f' Hle.
  { repeat split; intros; apply fle_fuel. }
  destruct f' as [|f']; [lia|].
  destruct (IH f' ltac:(lia)) as (IHd & IHpr & IHs & IHes & IHb & IHif & IHrt & IHru & IHfe & IHim).
  assert (IHe : forall st, fle (p_expression f st) (p_expression f' st)) by (intros; apply expression_mono; lia).
  assert (IHpa : forall n st, fle (p_params f n st) (p_params f' n st)) by (intros; apply params_mono; lia).
  assert (IHin : forall lb acc st, fle (p_import_names f lb acc st) (p_import_names f' lb acc st))
    by (intros; apply import_names_mono; lia).
  clear IH Hle. repeat split.
  - intros st. cbn [p_declaration]. fle_auto.
  - intros st. cbn [p_procedure]. fle_auto.
  - intros st. cbn [p_statement]. fle_auto.
  - intros st. cbn [p_expr_stmt]. fle_auto.
  - intros lb acc st. cbn [p_block]. fle_auto.
  - intros t st. cbn [p_if]. fle_auto.
  - intros st. cbn [p_repeat_times]. fle_auto.
  - intros st. cbn [p_repeat_until]. fle_auto.
  - intros st. cbn [p_for_each]. fle_auto.
  - intros st. cbn [p_import]. fle_auto.
Qed.

Lemma declaration_mono f f' st : f <= f' -> fle (p_declaration f st) (p_declaration f' st).
Proof. intros H. apply (mono_stmt_all f f' H). Qed.

(** * Part B: one statement *)

(** ** unfolding lemmas for the statement functions *)
Lemma p_declaration_S f st : p_declaration (S f) st =
  match match_toks [TExport; TProcedure] st with
  | (true, st1) => p_procedure f st1
  | (false, _) => p_statement f st
  end.
Proof. reflexivity. Qed.

Lemma p_statement_S f st : p_statement (S f) st =
  with_peek st (fun t =>
  if at_end st then p_expr_stmt f st else
  match tkind t with
  | TImport => p_import f (advance st)
  | TIf => p_if f t (advance st)
  | TRepeat =>
    let st1 := advance st in
    let lp0 := in_loop st1 in
    restore (in_fn st1) lp0
      (let st2 := set_flags st1 (in_fn st1) true in
       if check TUntil st2 then p_repeat_until f st2 else p_repeat_times f st2)
  | TFor =>
    let st1 := advance st in
    restore (in_fn st1) (in_loop st1) (p_for_each f (set_flags st1 (in_fn st1) true))
  | TLeftBrace => p_block f t [] (advance st)
  | TContinue => let st1 := advance st in if in_loop st1 then POk SContinue st1 else fail st1
  | TBreak => let st1 := advance st in if in_loop st1 then POk SBreak st1 else fail st1
  | TReturn =>
    let st1 := advance st in
    if negb (in_fn st1) then fail st1 else
    if at_end st1 || check TRightBrace st1 then POk (SReturn None) st1 else
    match match_tok TSoftSemi st1 with
    | (true, st2) => POk (SReturn None) st2
    | (false, _) =>
      do e, st2 <- p_expression f st1;
      do _u, st3 <- end_of_statement st2;
      POk (SReturn (Some e)) st3
    end
  | _ => p_expr_stmt f st
  end).
Proof. reflexivity. Qed.

Lemma p_expr_stmt_S f st : p_expr_stmt (S f) st =
  (do e, st1 <- p_expression f st;
   if at_end st1 then POk (SExpr e) st1
   else if check TRightBrace st1 then POk (SExpr e) st1
   else do _t, st2 <- consume TSoftSemi (fun t => mkPErr PC_missing_eol [tspan t]) st1; POk (SExpr e) st2).
Proof. reflexivity. Qed.

Lemma p_block_S f lb acc st : p_block (S f) lb acc st =
  if negb (check TRightBrace st) && negb (at_end st) then
    match match_tok TSoftSemi st with
    | (true, st1) => p_block f lb acc st1
    | (false, _) =>
      do s, st1 <- p_declaration f st;
      p_block f lb (s :: acc) st1
    end
  else
    do _rb, st1 <- consume TRightBrace (fun _ => mkPErr PC_missing_rb [tspan lb]) st;
    POk (SBlock (rev acc)) st1.
Proof. reflexivity. Qed.

Lemma p_if_S f it st : p_if (S f) it st =
  (do _lp, st1 <- consume TLeftParen (fun t => mkPErr PC_missing_lp [tspan t; tspan it]) st;
   do c, st2 <- p_expression f st1;
   do _rp, st3 <- consume TRightParen (fun t => mkPErr PC_missing_rp [tspan t]) st2;
   do th, st4 <- p_statement f st3;
   match match_tok TElse st4 with
   | (true, st5) => do el, st6 <- p_statement f st5; POk (SIf c th (Some el)) st6
   | (false, _) => POk (SIf c th None) st4
   end).
Proof. reflexivity. Qed.

Lemma p_repeat_times_S f st : p_repeat_times (S f) st =
  (do n, st1 <- p_expression f st;
   with_prev st1 (fun count_token =>
   do _t, st2 <- consume TTimes (fun t => mkPErr PC_missing_times [tspan t]) st1;
   do body, st3 <- p_statement f st2;
   POk (SRepeatTimes (tspan count_token) n body) st3)).
Proof. reflexivity. Qed.

Lemma p_repeat_until_S f st : p_repeat_until (S f) st =
  (do until_token, st1 <- consume TUntil err0 st;
   do _lp, st2 <- consume TLeftParen (fun t => mkPErr PC_missing_lp [tspan t; tspan until_token]) st1;
   do c, st3 <- p_expression f st2;
   do _rp, st4 <- consume TRightParen (fun t => mkPErr PC_missing_rp [tspan t]) st3;
   do body, st5 <- p_statement f st4;
   POk (SRepeatUntil c body) st5).
Proof. reflexivity. Qed.

Lemma p_for_each_S f st : p_for_each (S f) st =
  (do each_token, st1 <- consume TEach (fun t => mkPErr PC_missing_each [tspan t]) st;
   do item, st2 <- consume TIdentifier (fun t => mkPErr PC_missing_ident [tspan each_token; tspan t]) st1;
   do _in, st3 <- consume TIn (fun t => mkPErr PC_missing_in [tspan item; tspan t]) st2;
   do l, st4 <- p_expression f st3;
   with_prev st4 (fun list_token =>
   do body, st5 <- p_statement f st4;
   POk (SForEach (tlex item) (tspan item) (tspan list_token) l body) st5)).
Proof. reflexivity. Qed.

Lemma p_import_S f st : p_import (S f) st =
  (do only, st1 <-
    (match match_tok TLeftBracket st with
     | (true, s1) =>
       with_prev s1 (fun lbracket =>
       do names, s2 <- p_import_names f lbracket [] s1;
       do _rb, s3 <- consume TRightBracket err0 s2;
       POk (Some names) s3)
     | (false, _) =>
       match match_tok TStringLiteral st with
       | (true, s1) => with_prev s1 (fun one => POk (Some [one]) s1)
       | (false, _) => POk None st
       end
     end);
  do _from, st2 <- (match only with
                    | Some _ => do t, s <- consume TFrom err0 st1; POk tt s
                    | None => POk tt st1
                    end);
  do _mod, st3 <- consume TMod err0 st2;
  do name, st4 <- consume TStringLiteral err0 st3;
  do _u, st5 <- end_of_statement st4;
  match lit_string name, (match only with Some ts => option_map Some (names_of ts) | None => Some None end) with
  | Some m, Some o => POk (SImport m (tspan name) o) st5
  | _, _ => PPanic PanicLiteral
  end).
Proof. reflexivity. Qed.

Lemma p_params_S f n st : p_params (S f) n st =
  if (255 <=? n)%N then fail st else
  do t, st1 <- consume TIdentifier err0 st;
  match match_tok TComma st1 with
  | (true, st2) => do more, st3 <- p_params f (n + 1)%N st2; POk (tlex t :: more) st3
  | (false, _) => POk [tlex t] st1
  end.
Proof. reflexivity. Qed.

Lemma p_import_names_S f lbracket acc st : p_import_names (S f) lbracket acc st =
  if (63 <=? N.of_nat (length acc))%N then
    match acc with
    | last :: _ => PErr (mkPErr PC_none [span_between (tspan lbracket) (tspan last)]) st
    | [] => PPanic PanicPrevious
    end
  else
  do t, st1 <- consume TStringLiteral err0 st;
  match match_tok TComma st1 with
  | (true, st2) => p_import_names f lbracket (t :: acc) st2
  | (false, _) => POk (rev (t :: acc)) st1
  end.
Proof. reflexivity. Qed.

(** ** the statement functions on a cursor whose first token is known *)
Lemma stmt_if f X pv fn lf : p_statement (S f) (mkP (kw TIf :: X) pv fn lf) =
  p_if f (kw TIf) (mkP X (Some (kw TIf)) fn lf).
Proof. reflexivity. Qed.

Lemma stmt_repeat f X pv fn lf : p_statement (S f) (mkP (kw TRepeat :: X) pv fn lf) =
  restore fn lf (if check TUntil (mkP X (Some (kw TRepeat)) fn true)
                 then p_repeat_until f (mkP X (Some (kw TRepeat)) fn true)
                 else p_repeat_times f (mkP X (Some (kw TRepeat)) fn true)).
Proof. reflexivity. Qed.

Lemma stmt_for f X pv fn lf : p_statement (S f) (mkP (kw TFor :: X) pv fn lf) =
  restore fn lf (p_for_each f (mkP X (Some (kw TFor)) fn true)).
Proof. reflexivity. Qed.

Lemma stmt_block f X pv fn lf : p_statement (S f) (mkP (kw TLeftBrace :: X) pv fn lf) =
  p_block f (kw TLeftBrace) [] (mkP X (Some (kw TLeftBrace)) fn lf).
Proof. reflexivity. Qed.

Lemma stmt_continue f X pv fn : p_statement (S f) (mkP (kw TContinue :: X) pv fn true) =
  POk SContinue (mkP X (Some (kw TContinue)) fn true).
Proof. reflexivity. Qed.

Lemma stmt_break f X pv fn : p_statement (S f) (mkP (kw TBreak :: X) pv fn true) =
  POk SBreak (mkP X (Some (kw TBreak)) fn true).
Proof. reflexivity. Qed.

Lemma stmt_return_none f X pv lf : p_statement (S f) (mkP (kw TReturn :: kw TSoftSemi :: X) pv true lf) =
  POk (SReturn None) (mkP X (Some (kw TSoftSemi)) true lf).
Proof. reflexivity. Qed.

Lemma stmt_return f X pv lf : p_statement (S f) (mkP (kw TReturn :: X) pv true lf) =
  if at_end (mkP X (Some (kw TReturn)) true lf) || check TRightBrace (mkP X (Some (kw TReturn)) true lf)
  then POk (SReturn None) (mkP X (Some (kw TReturn)) true lf) else
  match match_tok TSoftSemi (mkP X (Some (kw TReturn)) true lf) with
  | (true, st2) => POk (SReturn None) st2
  | (false, _) =>
    do e, st2 <- p_expression f (mkP X (Some (kw TReturn)) true lf);
    do _u, st3 <- end_of_statement st2;
    POk (SReturn (Some e)) st3
  end.
Proof. reflexivity. Qed.

Lemma stmt_import f X pv fn lf : p_statement (S f) (mkP (kw TImport :: X) pv fn lf) =
  p_import f (mkP X (Some (kw TImport)) fn lf).
Proof. reflexivity. Qed.

Lemma eos_semi X pv fn lf : end_of_statement (mkP (kw TSoftSemi :: X) pv fn lf) =
  POk tt (mkP X (Some (kw TSoftSemi)) fn lf).
Proof. reflexivity. Qed.

Lemma import_none f m X pv fn lf :
  p_statement (S (S f)) (mkP (kw TImport :: kw TMod :: strlit m :: kw TSoftSemi :: X) pv fn lf) =
  POk (SImport m z None) (mkP X (Some (kw TSoftSemi)) fn lf).
Proof. reflexivity. Qed.

Lemma import_one f m one X pv fn lf :
  p_statement (S (S f)) (mkP (kw TImport :: strlit one :: kw TFrom :: kw TMod :: strlit m :: kw TSoftSemi :: X) pv fn lf) =
  POk (SImport m z (Some [(one, z)])) (mkP X (Some (kw TSoftSemi)) fn lf).
Proof. reflexivity. Qed.

Lemma proc_export f name X pv fn lf :
  p_declaration (S (S f)) (mkP (kw TExport :: kw TProcedure :: ident name :: lp :: X) pv fn lf) =
  (do params, st4 <- (if check TRightParen (mkP X (Some lp) fn lf) then POk [] (mkP X (Some lp) fn lf)
                      else p_params f 0%N (mkP X (Some lp) fn lf));
   do _rp, st5 <- consume TRightParen (fun t => mkPErr PC_missing_rp [tspan t]) st4;
   do body, st6 <- restore (in_fn st5) (in_loop st5) (p_statement f (set_flags st5 true false));
   POk (SProc name true params body) st6).
Proof. reflexivity. Qed.

Lemma proc_plain f name X pv fn lf :
  p_declaration (S (S f)) (mkP (kw TProcedure :: ident name :: lp :: X) pv fn lf) =
  (do params, st4 <- (if check TRightParen (mkP X (Some lp) fn lf) then POk [] (mkP X (Some lp) fn lf)
                      else p_params f 0%N (mkP X (Some lp) fn lf));
   do _rp, st5 <- consume TRightParen (fun t => mkPErr PC_missing_rp [tspan t]) st4;
   do body, st6 <- restore (in_fn st5) (in_loop st5) (p_statement f (set_flags st5 true false));
   POk (SProc name false params body) st6).
Proof. reflexivity. Qed.

(** ** first tokens *)
Definition heads (ks : list tk) (toks : list token) : Prop :=
  match toks with t :: _ => In (tkind t) ks | [] => False end.

Definition expr_heads : list tk :=
  [TIdentifier; TNumber; TStringLiteral; TTrue; TFalse; TNull; TLeftParen; TLeftBracket; TNot; TMinus].
Definition stmt_heads : list tk :=
  [TIdentifier; TNumber; TStringLiteral; TTrue; TFalse; TNull; TLeftParen; TLeftBracket; TNot; TMinus;
   TIf; TRepeat; TFor; TLeftBrace; TReturn; TContinue; TBreak; TImport].
Definition decl_heads : list tk :=
  [TIdentifier; TNumber; TStringLiteral; TTrue; TFalse; TNull; TLeftParen; TLeftBracket; TNot; TMinus;
   TIf; TRepeat; TFor; TLeftBrace; TReturn; TContinue; TBreak; TImport; TExport; TProcedure].

Ltac notin :=
  let H := fresh "Hin" in
  intros H; cbv [expr_heads stmt_heads decl_heads] in H; cbn [In] in H;
  repeat (destruct H as [H|H]; [discriminate H|]); exact H.

Lemma heads_app ks a b : heads ks a -> heads ks (a ++ b).
Proof. destruct a; cbn; [tauto|auto]. Qed.

Lemma heads_incl ks ks' toks : incl ks ks' -> heads ks toks -> heads ks' toks.
Proof. intros Hi. destruct toks as [|t r]; cbn; [auto|]. apply Hi. Qed.

Lemma expr_stmt_incl : incl expr_heads stmt_heads.
Proof. intros k H. cbv [expr_heads] in H. cbv [stmt_heads]. cbn [In] in *. tauto. Qed.
Lemma stmt_decl_incl : incl stmt_heads decl_heads.
Proof. intros k H. cbv [stmt_heads] in H. cbv [decl_heads]. cbn [In] in *. tauto. Qed.

Lemma heads_check ks k toks pv fn lf : heads ks toks -> ~ In k ks -> check k (mkP toks pv fn lf) = false.
Proof.
  intros H Hk. destruct toks as [|t r]; [destruct H|]. apply check_miss. intros E. apply Hk. rewrite <- E. exact H.
Qed.

Lemma heads_at_end ks toks pv fn lf : heads ks toks -> ~ In TEof ks -> at_end (mkP toks pv fn lf) = false.
Proof.
  intros H Hk. destruct toks as [|t r]; [destruct H|]. unfold at_end. cbn [rest].
  apply tk_eqb_neq. intros E. apply Hk. rewrite <- E. exact H.
Qed.

Lemma heads_match_tok ks k toks pv fn lf : heads ks toks -> ~ In k ks ->
  match_tok k (mkP toks pv fn lf) = (false, mkP toks pv fn lf).
Proof. intros H Hk. unfold match_tok. rewrite (heads_check ks) by assumption. reflexivity. Qed.

Lemma print_heads full req e X : heads expr_heads (print full req e ++ X).
Proof. apply heads_app. exact (print_starts10 full req e). Qed.

Lemma at_end_cons t r pv fn lf : tkind t <> TEof -> at_end (mkP (t :: r) pv fn lf) = false.
Proof. intros H. unfold at_end. cbn [rest]. apply tk_eqb_neq. exact H. Qed.

(** ** dispatch *)
Lemma stmt_expr f toks pv fn lf : heads expr_heads toks ->
  p_statement (S f) (mkP toks pv fn lf) = p_expr_stmt f (mkP toks pv fn lf).
Proof.
  intros H. destruct toks as [|t X]; [destruct H|]. rewrite p_statement_S. unfold with_peek. cbn [rest].
  destruct (at_end (mkP (t :: X) pv fn lf)); [reflexivity|].
  unfold heads in H. destruct (tkind t) eqn:E; try reflexivity; exfalso; revert H; notin.
Qed.

Lemma decl_stmt f toks pv fn lf : heads stmt_heads toks ->
  p_declaration (S f) (mkP toks pv fn lf) = p_statement f (mkP toks pv fn lf).
Proof.
  intros H. destruct toks as [|t X]; [destruct H|]. rewrite p_declaration_S, match_toks_miss; [reflexivity|].
  unfold heads in H. intros [E|[E|[]]]; rewrite <- E in H; revert H; notin.
Qed.

(** ** expressions inside statements *)
Lemma expr_rt full e : printable e -> forall rest pv fn lf, stops rest ->
  exists F t, tspan t = z /\ forall f, F <= f ->
    p_expression f (mkP (print full 0 e ++ rest) pv fn lf) = POk (expected full 0 e) (mkP rest (Some t) fn lf).
Proof.
  intros Hp rest pv fn lf Hs.
  destruct (M_all full e Hp 0 0 (Nat.le_refl _) ltac:(lia) rest pv fn lf (stops_follow _ _ Hs)) as (F & t & Ht & H).
  exists F, t. split; [exact Ht|]. intros f Hle. apply H. exact Hle.
Qed.

(** ** what it means that a statement function inverts the printer *)
Definition sparses (P : nat -> pstate -> pres stmt) (Fo : list token -> Prop)
  (toks : list token) (s : stmt) (fn lf : bool) : Prop :=
  forall rest0 pv, Fo rest0 -> exists F pv', forall f, F <= f ->
    P f (mkP (toks ++ rest0) pv fn lf) = POk s (mkP rest0 pv' fn lf).

Definition anyf : list token -> Prop := fun _ => True.
Definition sfollow (r : list token) : Prop := match r with t :: _ => tkind t <> TElse | [] => False end.

Lemma sparses_weaken P (Fo Fo' : list token -> Prop) toks s fn lf :
  (forall r, Fo' r -> Fo r) -> sparses P Fo toks s fn lf -> sparses P Fo' toks s fn lf.
Proof. intros Hw H rest0 pv Hf. apply H. apply Hw. exact Hf. Qed.

Lemma stmt_to_decl Fo toks s fn lf : (forall X, heads stmt_heads (toks ++ X)) ->
  sparses p_statement Fo toks s fn lf -> sparses p_declaration Fo toks s fn lf.
Proof.
  intros Hh H rest0 pv Hf. destruct (H rest0 pv Hf) as (F & pv' & HF).
  exists (S F), pv'. intros f Hle. destruct f as [|f]; [lia|].
  rewrite decl_stmt by apply Hh. apply HF. lia.
Qed.

Lemma heads_sfollow toks : heads decl_heads toks -> sfollow toks.
Proof. destruct toks as [|t r]; cbn [heads sfollow]; [auto|]. intros H E. rewrite E in H. revert H. notin. Qed.

Definition is_proc (s : stmt) : bool := match s with SProc _ _ _ _ => true | _ => false end.

Lemma flat_go full ss :
  (fix go (l : list stmt) : list token := match l with [] => [] | x :: r => pr_stmt full x ++ go r end) ss =
  flat_map (pr_stmt full) ss.
Proof. induction ss as [|x r IH]; [reflexivity|]. cbn [flat_map]. rewrite IH. reflexivity. Qed.

Section Stmt.
  Variable full : bool.
  Notation pr := (pr_stmt full).
  Notation exs := (ex_stmt full).

  (** the printer, one constructor at a time, in front of a continuation *)
  Lemma pr_expr_app e R : pr (SExpr e) ++ R = print full 0 e ++ kw TSoftSemi :: R.
  Proof. cbn [pr_stmt]. rewrite <- app_assoc. reflexivity. Qed.

  Lemma pr_if_app c t e R : pr (SIf c t e) ++ R =
    kw TIf :: lp :: print full 0 c ++ rp :: pr t ++
    (match e with Some el => kw TElse :: pr el ++ R | None => R end).
  Proof.
    cbn [pr_stmt app]. rewrite <- app_assoc. cbn [app]. rewrite <- app_assoc.
    destruct e; reflexivity.
  Qed.

  Lemma pr_times_app sp n body R : pr (SRepeatTimes sp n body) ++ R =
    kw TRepeat :: print full 0 n ++ kw TTimes :: pr body ++ R.
  Proof. cbn [pr_stmt app]. rewrite <- app_assoc. reflexivity. Qed.

  Lemma pr_until_app c body R : pr (SRepeatUntil c body) ++ R =
    kw TRepeat :: kw TUntil :: lp :: print full 0 c ++ rp :: pr body ++ R.
  Proof. cbn [pr_stmt app]. rewrite <- app_assoc. reflexivity. Qed.

  Lemma pr_for_app name a b l body R : pr (SForEach name a b l body) ++ R =
    kw TFor :: kw TEach :: ident name :: kw TIn :: print full 0 l ++ pr body ++ R.
  Proof. cbn [pr_stmt app]. rewrite <- app_assoc. reflexivity. Qed.

  Lemma pr_proc_app name exported params body R : pr (SProc name exported params body) ++ R =
    (if exported then [kw TExport] else []) ++ kw TProcedure :: ident name :: lp ::
    sep_tokens (map (fun p => [ident p]) params) ++ rp :: pr body ++ R.
  Proof. cbn [pr_stmt]. rewrite <- app_assoc. cbn [app]. rewrite <- app_assoc. reflexivity. Qed.

  Lemma pr_block_app ss R : pr (SBlock ss) ++ R = kw TLeftBrace :: flat_map pr ss ++ kw TRightBrace :: R.
  Proof. cbn [pr_stmt]. rewrite flat_go. cbn [app]. rewrite <- app_assoc. reflexivity. Qed.

  Lemma pr_return_app e R : pr (SReturn (Some e)) ++ R = kw TReturn :: print full 0 e ++ kw TSoftSemi :: R.
  Proof. cbn [pr_stmt app]. rewrite <- app_assoc. reflexivity. Qed.

  Lemma pr_import_many_app m sp l R : 2 <= length l -> pr (SImport m sp (Some l)) ++ R =
    kw TImport :: kw TLeftBracket :: sep_tokens (map (fun p => [strlit (fst p)]) l) ++
    kw TRightBracket :: kw TFrom :: kw TMod :: strlit m :: kw TSoftSemi :: R.
  Proof.
    intros H. destruct l as [|[a b] [|q r]]; cbn [length] in H; try lia.
    cbn [pr_stmt]. unfold pr_import. cbn [app]. rewrite <- !app_assoc. reflexivity.
  Qed.

  Lemma block_heads s R : is_block s = true -> heads [TLeftBrace] (pr s ++ R).
  Proof. destruct s; try discriminate. intros _. rewrite pr_block_app. cbn. tauto. Qed.

  Lemma pr_heads0 s R : is_proc s = false -> heads stmt_heads (pr s ++ R).
  Proof.
    destruct s as [e|c t e|sp n body|c body|name a b l body|name ex params body|ss|[e|]| | |m sp only]; intros Hp;
      try discriminate Hp.
    - rewrite pr_expr_app. eapply heads_incl; [exact expr_stmt_incl|apply print_heads].
    - rewrite pr_if_app. cbn. tauto.
    - rewrite pr_times_app. cbn. tauto.
    - rewrite pr_until_app. cbn. tauto.
    - rewrite pr_for_app. cbn. tauto.
    - rewrite pr_block_app. cbn. tauto.
    - rewrite pr_return_app. cbn. tauto.
    - cbn. tauto.
    - cbn. tauto.
    - cbn. tauto.
    - cbn [pr_stmt pr_import app heads tkind kw tk0 stmt_heads In]. tauto.
  Qed.

  Lemma pr_heads s R : heads decl_heads (pr s ++ R).
  Proof.
    destruct (is_proc s) eqn:E.
    - destruct s; try discriminate E. rewrite pr_proc_app. destruct exported; cbn; tauto.
    - eapply heads_incl; [exact stmt_decl_incl|apply pr_heads0; exact E].
  Qed.
End Stmt.

(** ** parameter and name lists *)
Lemma sep_cons2 (a b : list token) r : sep_tokens (a :: b :: r) = a ++ kw TComma :: sep_tokens (b :: r).
Proof. reflexivity. Qed.

Lemma params_rt : forall ps p n Y pv fn lf, (n + N.of_nat (S (length ps)) <= 255)%N ->
  exists pv', forall f, S (length ps) <= f ->
    p_params f n (mkP (sep_tokens (map (fun x => [ident x]) (p :: ps)) ++ rp :: Y) pv fn lf) =
    POk (p :: ps) (mkP (rp :: Y) pv' fn lf).
Proof.
  induction ps as [|q ps IH]; intros p n Y pv fn lf Hn.
  - exists (Some (ident p)). intros f Hf. destruct f as [|f]; [lia|].
    cbn [map sep_tokens app]. rewrite p_params_S.
    assert (Hl : (255 <=? n)%N = false) by (apply N.leb_gt; lia). rewrite Hl.
    rewrite consume_hit; [|reflexivity|discriminate]. cbn [pbind].
    rewrite match_tok_miss by discriminate. reflexivity.
  - destruct (IH q (n + 1)%N Y (Some (kw TComma)) fn lf) as (pv' & H).
    { cbn [length] in Hn |- *. lia. }
    exists pv'. intros f Hf. cbn [length] in Hf. destruct f as [|f]; [lia|].
    cbn [map]. rewrite sep_cons2. cbn [app]. rewrite p_params_S.
    assert (Hl : (255 <=? n)%N = false) by (apply N.leb_gt; lia). rewrite Hl.
    rewrite consume_hit; [|reflexivity|discriminate]. cbn [pbind].
    rewrite match_tok_hit; [|reflexivity|discriminate].
    cbn [map] in H. rewrite H by lia. reflexivity.
Qed.

Lemma import_names_rt lb : forall ns nm acc Y pv fn lf, length acc + S (length ns) <= 63 ->
  exists pv', forall f, S (length ns) <= f ->
    p_import_names f lb acc
      (mkP (sep_tokens (map (fun p : text * span => [strlit (fst p)]) (nm :: ns)) ++ kw TRightBracket :: Y) pv fn lf) =
    POk (rev acc ++ map (fun p : text * span => strlit (fst p)) (nm :: ns)) (mkP (kw TRightBracket :: Y) pv' fn lf).
Proof.
  induction ns as [|q ns IH]; intros nm acc Y pv fn lf Hn.
  - exists (Some (strlit (fst nm))). intros f Hf. destruct f as [|f]; [lia|].
    cbn [map sep_tokens app]. rewrite p_import_names_S.
    assert (Hl : (63 <=? N.of_nat (length acc))%N = false) by (apply N.leb_gt; cbn [length] in Hn; lia). rewrite Hl.
    rewrite consume_hit; [|reflexivity|discriminate]. cbn [pbind].
    rewrite match_tok_miss by discriminate. reflexivity.
  - destruct (IH q (strlit (fst nm) :: acc) Y (Some (kw TComma)) fn lf) as (pv' & H).
    { cbn [length] in Hn |- *. lia. }
    exists pv'. intros f Hf. cbn [length] in Hf. destruct f as [|f]; [lia|].
    cbn [map]. rewrite sep_cons2. cbn [app]. rewrite p_import_names_S.
    assert (Hl : (63 <=? N.of_nat (length acc))%N = false) by (apply N.leb_gt; cbn [length] in Hn; lia). rewrite Hl.
    rewrite consume_hit; [|reflexivity|discriminate]. cbn [pbind].
    rewrite match_tok_hit; [|reflexivity|discriminate].
    cbn [map] in H. rewrite H by lia. cbn [rev]. rewrite <- app_assoc. reflexivity.
Qed.

Lemma names_of_strlits (l : list (text * span)) :
  names_of (map (fun p => strlit (fst p)) l) = Some (map (fun p => (fst p, z)) l).
Proof. induction l as [|p l IH]; [reflexivity|]. cbn [map names_of]. rewrite IH. reflexivity. Qed.

(** ** the statement forms *)
Section Cases.
  Variable full : bool.
  Notation pr := (pr_stmt full).
  Notation exs := (ex_stmt full).

  Lemma expr_case e fn lf : printable e -> sparses p_statement anyf (pr (SExpr e)) (exs (SExpr e)) fn lf.
  Proof.
    intros Hp rest0 pv _.
    destruct (expr_rt full e Hp (kw TSoftSemi :: rest0) pv fn lf) as (F & t & Ht & H); [cbn; tauto|].
    exists (S (S F)), (Some (kw TSoftSemi)). intros f Hle. destruct f as [|[|f]]; try lia.
    rewrite pr_expr_app. rewrite stmt_expr by apply print_heads. rewrite p_expr_stmt_S.
    rewrite H by lia. cbn [pbind].
    rewrite at_end_cons by discriminate. rewrite check_miss by discriminate.
    rewrite consume_hit; [|reflexivity|discriminate]. reflexivity.
  Qed.

  Lemma if_case c t e fn lf : printable c ->
    sparses p_statement anyf (pr t) (exs t) fn lf ->
    match e with Some el => sparses p_statement sfollow (pr el) (exs el) fn lf | None => True end ->
    sparses p_statement sfollow (pr (SIf c t e)) (exs (SIf c t e)) fn lf.
  Proof.
    intros Hc Ht He rest0 pv Hf.
    destruct e as [el|].
    - destruct (expr_rt full c Hc (rp :: pr t ++ kw TElse :: pr el ++ rest0) (Some lp) fn lf) as (F1 & t1 & Ht1 & H1);
        [cbn; tauto|].
      destruct (Ht (kw TElse :: pr el ++ rest0) (Some rp) I) as (F2 & pv2 & H2).
      destruct (He rest0 (Some (kw TElse)) Hf) as (F3 & pv3 & H3).
      exists (S (S (F1 + F2 + F3))), pv3. intros f Hle. destruct f as [|[|f]]; try lia.
      rewrite pr_if_app, stmt_if, p_if_S.
      rewrite consume_hit; [|reflexivity|discriminate]. cbn [pbind].
      rewrite H1 by lia. cbn [pbind].
      rewrite consume_hit; [|reflexivity|discriminate]. cbn [pbind].
      rewrite H2 by lia. cbn [pbind].
      rewrite match_tok_hit; [|reflexivity|discriminate].
      rewrite H3 by lia. reflexivity.
    - destruct (expr_rt full c Hc (rp :: pr t ++ rest0) (Some lp) fn lf) as (F1 & t1 & Ht1 & H1); [cbn; tauto|].
      destruct (Ht rest0 (Some rp) I) as (F2 & pv2 & H2).
      exists (S (S (F1 + F2))), pv2. intros f Hle. destruct f as [|[|f]]; try lia.
      rewrite pr_if_app, stmt_if, p_if_S.
      rewrite consume_hit; [|reflexivity|discriminate]. cbn [pbind].
      rewrite H1 by lia. cbn [pbind].
      rewrite consume_hit; [|reflexivity|discriminate]. cbn [pbind].
      rewrite H2 by lia. cbn [pbind].
      destruct rest0 as [|t0 r0]; [destruct Hf|].
      rewrite match_tok_miss by exact Hf. reflexivity.
  Qed.

  Lemma times_case sp n body fn lf : printable n ->
    sparses p_statement anyf (pr body) (exs body) fn true ->
    sparses p_statement anyf (pr (SRepeatTimes sp n body)) (exs (SRepeatTimes sp n body)) fn lf.
  Proof.
    intros Hn Hb rest0 pv _.
    destruct (expr_rt full n Hn (kw TTimes :: pr body ++ rest0) (Some (kw TRepeat)) fn true) as (F1 & t1 & Ht1 & H1);
      [cbn; tauto|].
    destruct (Hb rest0 (Some (kw TTimes)) I) as (F2 & pv2 & H2).
    exists (S (S (F1 + F2))), pv2. intros f Hle. destruct f as [|[|f]]; try lia.
    rewrite pr_times_app, stmt_repeat.
    rewrite (heads_check expr_heads) by (try apply print_heads; notin).
    rewrite p_repeat_times_S. rewrite H1 by lia. cbn [pbind with_prev prevt].
    rewrite consume_hit; [|reflexivity|discriminate]. cbn [pbind].
    rewrite H2 by lia. cbn [pbind restore]. rewrite Ht1. reflexivity.
  Qed.

  Lemma until_case c body fn lf : printable c ->
    sparses p_statement anyf (pr body) (exs body) fn true ->
    sparses p_statement anyf (pr (SRepeatUntil c body)) (exs (SRepeatUntil c body)) fn lf.
  Proof.
    intros Hc Hb rest0 pv _.
    destruct (expr_rt full c Hc (rp :: pr body ++ rest0) (Some lp) fn true) as (F1 & t1 & Ht1 & H1); [cbn; tauto|].
    destruct (Hb rest0 (Some rp) I) as (F2 & pv2 & H2).
    exists (S (S (F1 + F2))), pv2. intros f Hle. destruct f as [|[|f]]; try lia.
    rewrite pr_until_app, stmt_repeat.
    rewrite check_hit; [|reflexivity|discriminate].
    rewrite p_repeat_until_S.
    rewrite consume_hit; [|reflexivity|discriminate]. cbn [pbind].
    rewrite consume_hit; [|reflexivity|discriminate]. cbn [pbind].
    rewrite H1 by lia. cbn [pbind].
    rewrite consume_hit; [|reflexivity|discriminate]. cbn [pbind].
    rewrite H2 by lia. reflexivity.
  Qed.

  Lemma for_case name a b l body fn lf : printable l -> is_block body = true ->
    sparses p_statement anyf (pr body) (exs body) fn true ->
    sparses p_statement anyf (pr (SForEach name a b l body)) (exs (SForEach name a b l body)) fn lf.
  Proof.
    intros Hl Hblk Hb rest0 pv _.
    destruct (expr_rt full l Hl (pr body ++ rest0) (Some (kw TIn)) fn true) as (F1 & t1 & Ht1 & H1).
    { pose proof (block_heads full body rest0 Hblk) as Hh. destruct (pr body ++ rest0) as [|t0 r0]; [destruct Hh|].
      cbn [heads In] in Hh. cbn [stops In]. destruct Hh as [Hh|[]]. rewrite <- Hh. tauto. }
    destruct (Hb rest0 (Some t1) I) as (F2 & pv2 & H2).
    exists (S (S (F1 + F2))), pv2. intros f Hle. destruct f as [|[|f]]; try lia.
    rewrite pr_for_app, stmt_for, p_for_each_S.
    rewrite consume_hit; [|reflexivity|discriminate]. cbn [pbind].
    rewrite consume_hit; [|reflexivity|discriminate]. cbn [pbind].
    rewrite consume_hit; [|reflexivity|discriminate]. cbn [pbind].
    rewrite H1 by lia. cbn [pbind with_prev prevt].
    rewrite H2 by lia. cbn [pbind restore]. rewrite Ht1. reflexivity.
  Qed.

  Lemma proc_tail name exported params body fn lf X R pv pv4 :
    sparses p_statement anyf (pr body) (exs body) true false ->
    (exists F, forall f, F <= f ->
       (if check TRightParen (mkP X pv fn lf) then POk [] (mkP X pv fn lf) else p_params f 0%N (mkP X pv fn lf)) =
       POk params (mkP (rp :: pr body ++ R) pv4 fn lf)) ->
    exists F pv', forall f, F <= f ->
    (do params, st4 <- (if check TRightParen (mkP X pv fn lf) then POk [] (mkP X pv fn lf)
                        else p_params f 0%N (mkP X pv fn lf));
     do _rp, st5 <- consume TRightParen (fun t => mkPErr PC_missing_rp [tspan t]) st4;
     do body, st6 <- restore (in_fn st5) (in_loop st5) (p_statement f (set_flags st5 true false));
     POk (SProc name exported params body) st6) = POk (SProc name exported params (exs body)) (mkP R pv' fn lf).
  Proof.
    intros Hb (F1 & H1).
    destruct (Hb R (Some rp) I) as (F2 & pv2 & H2).
    exists (F1 + F2), pv2. intros f' Hle.
    rewrite H1 by lia. cbn [pbind].
    rewrite consume_hit; [|reflexivity|discriminate]. cbn [pbind in_fn in_loop set_flags rest prevt].
    rewrite H2 by lia. reflexivity.
  Qed.

  Lemma proc_case name exported params body fn lf : length params <= 255 ->
    sparses p_statement anyf (pr body) (exs body) true false ->
    sparses p_declaration anyf (pr (SProc name exported params body)) (exs (SProc name exported params body)) fn lf.
  Proof.
    intros Hlen Hb rest0 pv _.
    assert (Hp : exists pv4 F, forall f, F <= f ->
       (if check TRightParen (mkP (sep_tokens (map (fun p => [ident p]) params) ++ rp :: pr body ++ rest0) (Some lp) fn lf)
        then POk [] (mkP (sep_tokens (map (fun p => [ident p]) params) ++ rp :: pr body ++ rest0) (Some lp) fn lf)
        else p_params f 0%N (mkP (sep_tokens (map (fun p => [ident p]) params) ++ rp :: pr body ++ rest0) (Some lp) fn lf)) =
       POk params (mkP (rp :: pr body ++ rest0) pv4 fn lf)).
    { destruct params as [|p ps].
      - exists (Some lp), 0. intros f _. cbn [map sep_tokens app].
        rewrite check_hit; [reflexivity|reflexivity|discriminate].
      - destruct (params_rt ps p 0%N (pr body ++ rest0) (Some lp) fn lf) as (pv4 & H4).
        { cbn [length] in Hlen. lia. }
        exists pv4, (S (length ps)). intros f Hle.
        rewrite (heads_check [TIdentifier]).
        + apply H4. exact Hle.
        + destruct ps; cbn; tauto.
        + intros [E|[]]; discriminate E. }
    destruct Hp as (pv4 & Hp).
    destruct (proc_tail name exported params body fn lf _ rest0 (Some lp) pv4 Hb Hp) as (F & pv' & H).
    exists (S (S F)), pv'. intros f Hle. destruct f as [|[|f]]; try lia.
    rewrite pr_proc_app. destruct exported; cbn [app].
    - rewrite proc_export. apply H. lia.
    - rewrite proc_plain. apply H. lia.
  Qed.

  Lemma block_rt fn lf : forall ss,
    Forall (fun s => sparses p_declaration sfollow (pr s) (exs s) fn lf) ss ->
    forall acc rest0 pv, exists F pv', forall f, F <= f ->
      p_block f (kw TLeftBrace) acc (mkP (flat_map pr ss ++ kw TRightBrace :: rest0) pv fn lf) =
      POk (SBlock (rev acc ++ map exs ss)) (mkP rest0 pv' fn lf).
  Proof.
    induction ss as [|s ss IH]; intros HF acc rest0 pv.
    - exists 1, (Some (kw TRightBrace)). intros f Hle. destruct f as [|f]; [lia|].
      cbn [flat_map app map]. rewrite p_block_S.
      rewrite check_hit; [|reflexivity|discriminate]. cbn [negb andb].
      rewrite consume_hit; [|reflexivity|discriminate]. cbn [pbind]. rewrite app_nil_r. reflexivity.
    - pose proof (Forall_inv HF) as Hs. pose proof (Forall_inv_tail HF) as HF'.
      destruct (Hs (flat_map pr ss ++ kw TRightBrace :: rest0) pv) as (F1 & pv1 & H1).
      { destruct ss as [|s2 ss2]; [cbn; discriminate|].
        cbn [flat_map]. rewrite <- app_assoc. apply heads_sfollow, pr_heads. }
      destruct (IH HF' (exs s :: acc) rest0 pv1) as (F2 & pv2 & H2).
      exists (S (F1 + F2)), pv2. intros f Hle. destruct f as [|f]; [lia|].
      cbn [flat_map]. rewrite <- app_assoc. rewrite p_block_S.
      rewrite (heads_check decl_heads) by (try apply pr_heads; notin).
      rewrite (heads_at_end decl_heads) by (try apply pr_heads; notin).
      cbn [negb andb].
      rewrite (heads_match_tok decl_heads) by (try apply pr_heads; notin).
      rewrite H1 by lia. cbn [pbind]. rewrite H2 by lia.
      cbn [rev map]. rewrite <- app_assoc. reflexivity.
  Qed.

  Lemma block_case ss fn lf :
    Forall (fun s => sparses p_declaration sfollow (pr s) (exs s) fn lf) ss ->
    sparses p_statement anyf (pr (SBlock ss)) (exs (SBlock ss)) fn lf.
  Proof.
    intros HF rest0 pv _.
    destruct (block_rt fn lf ss HF [] rest0 (Some (kw TLeftBrace))) as (F & pv' & H).
    exists (S F), pv'. intros f Hle. destruct f as [|f]; [lia|].
    rewrite pr_block_app, stmt_block. apply H. lia.
  Qed.

  Lemma return_case e lf : printable e ->
    sparses p_statement anyf (pr (SReturn (Some e))) (exs (SReturn (Some e))) true lf.
  Proof.
    intros Hp rest0 pv _.
    destruct (expr_rt full e Hp (kw TSoftSemi :: rest0) (Some (kw TReturn)) true lf) as (F & t & Ht & H); [cbn; tauto|].
    exists (S F), (Some (kw TSoftSemi)). intros f Hle. destruct f as [|f]; [lia|].
    rewrite pr_return_app, stmt_return.
    rewrite (heads_at_end expr_heads) by (try apply print_heads; notin).
    rewrite (heads_check expr_heads) by (try apply print_heads; notin).
    cbn [orb].
    rewrite (heads_match_tok expr_heads) by (try apply print_heads; notin).
    rewrite H by lia. cbn [pbind]. rewrite eos_semi. reflexivity.
  Qed.

  Lemma import_case m sp only fn lf :
    match only with Some l => 1 <= length l <= 63 | None => True end ->
    sparses p_statement anyf (pr (SImport m sp only)) (exs (SImport m sp only)) fn lf.
  Proof.
    intros Hl rest0 pv _.
    destruct only as [l|].
    - destruct l as [|[one s1] [|q r]].
      + cbn [length] in Hl. lia.
      + exists 2, (Some (kw TSoftSemi)). intros f Hle. destruct f as [|[|f]]; try lia. apply import_one.
      + destruct (import_names_rt (kw TLeftBracket) (q :: r) (one, s1) []
                    (kw TFrom :: kw TMod :: strlit m :: kw TSoftSemi :: rest0) (Some (kw TLeftBracket)) fn lf)
          as (pv1 & H1).
        { cbn [length] in Hl |- *. lia. }
        exists (S (S (S (length (q :: r))))), (Some (kw TSoftSemi)). intros f Hle. destruct f as [|[|f]]; try lia.
        rewrite pr_import_many_app by (cbn [length]; lia).
        rewrite stmt_import, p_import_S.
        rewrite match_tok_hit; [|reflexivity|discriminate]. cbn [with_prev prevt].
        rewrite H1 by lia. cbn [pbind].
        rewrite consume_hit; [|reflexivity|discriminate]. cbn [pbind].
        rewrite consume_hit; [|reflexivity|discriminate]. cbn [pbind].
        rewrite consume_hit; [|reflexivity|discriminate]. cbn [pbind].
        rewrite consume_hit; [|reflexivity|discriminate]. cbn [pbind].
        rewrite eos_semi. cbn [pbind rev app].
        rewrite names_of_strlits. reflexivity.
    - exists 2, (Some (kw TSoftSemi)). intros f Hle. destruct f as [|[|f]]; try lia. apply import_none.
  Qed.
End Cases.

(** ** induction on statements (blocks hold lists of statements) *)
Definition optP (P : stmt -> Prop) (e : option stmt) : Prop :=
  match e with Some el => P el | None => True end.

Section StmtInd.
  Variable P : stmt -> Prop.
  Hypothesis HExpr : forall e, P (SExpr e).
  Hypothesis HIf : forall c t e, P t -> optP P e -> P (SIf c t e).
  Hypothesis HTimes : forall sp n b, P b -> P (SRepeatTimes sp n b).
  Hypothesis HUntil : forall c b, P b -> P (SRepeatUntil c b).
  Hypothesis HFor : forall name a b l body, P body -> P (SForEach name a b l body).
  Hypothesis HProc : forall name ex ps body, P body -> P (SProc name ex ps body).
  Hypothesis HBlock : forall ss, Forall P ss -> P (SBlock ss).
  Hypothesis HRet : forall e, P (SReturn e).
  Hypothesis HCont : P SContinue.
  Hypothesis HBreak : P SBreak.
  Hypothesis HImp : forall m sp only, P (SImport m sp only).

  Fixpoint stmt_ind2 (s : stmt) : P s :=
    match s with
    | SExpr e => HExpr e
    | SIf c t e =>
      HIf c t e (stmt_ind2 t)
          (match e as e0 return optP P e0 with
           | Some el => stmt_ind2 el
           | None => I
           end)
    | SRepeatTimes sp n b => HTimes sp n b (stmt_ind2 b)
    | SRepeatUntil c b => HUntil c b (stmt_ind2 b)
    | SForEach name a b l body => HFor name a b l body (stmt_ind2 body)
    | SProc name ex ps body => HProc name ex ps body (stmt_ind2 body)
    | SBlock ss =>
      HBlock ss ((fix go (l : list stmt) : Forall P l :=
                    match l with
                    | [] => Forall_nil P
                    | x :: r => Forall_cons x (stmt_ind2 x) (go r)
                    end) ss)
    | SReturn e => HRet e
    | SContinue => HCont
    | SBreak => HBreak
    | SImport m sp only => HImp m sp only
    end.
End StmtInd.

Lemma doc_block fn lf ss : doc_stmt fn lf (SBlock ss) -> Forall (doc_stmt fn lf) ss.
Proof.
  induction ss as [|x r IH]; intros H; constructor.
  - destruct H as [H _]. exact H.
  - apply IH. destruct H as [_ H]. exact H.
Qed.

(** ** every statement of the documented grammar *)
Section Main.
  Variable full : bool.
  Notation pr := (pr_stmt full).
  Notation exs := (ex_stmt full).

  Definition rt3 (s : stmt) : Prop := forall fn lf, doc_stmt fn lf s ->
    (is_block s = true -> sparses p_statement anyf (pr s) (exs s) fn lf) /\
    (is_proc s = false -> sparses p_statement sfollow (pr s) (exs s) fn lf) /\
    sparses p_declaration sfollow (pr s) (exs s) fn lf.

  Lemma pack_any s fn lf : is_proc s = false -> sparses p_statement anyf (pr s) (exs s) fn lf ->
    (is_block s = true -> sparses p_statement anyf (pr s) (exs s) fn lf) /\
    (is_proc s = false -> sparses p_statement sfollow (pr s) (exs s) fn lf) /\
    sparses p_declaration sfollow (pr s) (exs s) fn lf.
  Proof.
    intros Hp H. split; [intros _; exact H|].
    assert (H' : sparses p_statement sfollow (pr s) (exs s) fn lf).
    { eapply sparses_weaken; [|exact H]. intros r _. exact I. }
    split; [intros _; exact H'|].
    apply stmt_to_decl; [|exact H']. intros X. apply pr_heads0. exact Hp.
  Qed.

  Lemma pack_if s fn lf : is_block s = false -> is_proc s = false ->
    sparses p_statement sfollow (pr s) (exs s) fn lf ->
    (is_block s = true -> sparses p_statement anyf (pr s) (exs s) fn lf) /\
    (is_proc s = false -> sparses p_statement sfollow (pr s) (exs s) fn lf) /\
    sparses p_declaration sfollow (pr s) (exs s) fn lf.
  Proof.
    intros Hb Hp H. split; [intros E; congruence|]. split; [intros _; exact H|].
    apply stmt_to_decl; [|exact H]. intros X. apply pr_heads0. exact Hp.
  Qed.

  Lemma pack_proc s fn lf : is_block s = false -> is_proc s = true ->
    sparses p_declaration anyf (pr s) (exs s) fn lf ->
    (is_block s = true -> sparses p_statement anyf (pr s) (exs s) fn lf) /\
    (is_proc s = false -> sparses p_statement sfollow (pr s) (exs s) fn lf) /\
    sparses p_declaration sfollow (pr s) (exs s) fn lf.
  Proof.
    intros Hb Hp H. split; [intros E; congruence|]. split; [intros E; congruence|].
    eapply sparses_weaken; [|exact H]. intros r _. exact I.
  Qed.

  Theorem stmt_rt : forall s, rt3 s.
  Proof.
    apply stmt_ind2; unfold rt3.
    - intros e fn lf Hd. apply pack_any; [reflexivity|]. apply expr_case. exact Hd.
    - intros c t e IHt IHe fn lf Hd. unfold optP in IHe. destruct Hd as (Hc & Hbt & Hdt & Hde).
      apply pack_if; [reflexivity|reflexivity|]. apply if_case; [exact Hc|apply IHt; assumption|].
      destruct e as [el|]; [|exact I]. destruct Hde as [Hk Hdel]. apply IHe; [exact Hdel|].
      destruct el; destruct Hk as [Hk|Hk]; try discriminate Hk; try destruct Hk; reflexivity.
    - intros sp n b IHb fn lf (Hn & Hblk & Hdb). apply pack_any; [reflexivity|].
      apply times_case; [exact Hn|]. apply IHb; assumption.
    - intros c b IHb fn lf (Hc & Hblk & Hdb). apply pack_any; [reflexivity|].
      apply until_case; [exact Hc|]. apply IHb; assumption.
    - intros name a b l body IHb fn lf (Hl & Hblk & Hdb). apply pack_any; [reflexivity|].
      apply for_case; [exact Hl|exact Hblk|]. apply IHb; assumption.
    - intros name ex ps body IHb fn lf (Hlen & Hblk & Hdb). apply pack_proc; [reflexivity|reflexivity|].
      apply proc_case; [exact Hlen|]. apply IHb; assumption.
    - intros ss IH fn lf Hd. apply pack_any; [reflexivity|]. apply block_case.
      apply doc_block in Hd. rewrite Forall_forall in *. intros s Hin.
      apply (IH s Hin fn lf (Hd s Hin)).
    - intros [e|] fn lf Hd.
      + destruct Hd as [-> Hp]. apply pack_any; [reflexivity|]. apply return_case. exact Hp.
      + cbn [doc_stmt] in Hd. subst fn. apply pack_any; [reflexivity|]. intros rest0 pv _.
        exists 1, (Some (kw TSoftSemi)). intros f Hle. destruct f as [|f]; [lia|]. apply stmt_return_none.
    - intros fn lf Hd. cbn [doc_stmt] in Hd. subst lf. apply pack_any; [reflexivity|]. intros rest0 pv _.
      exists 1, (Some (kw TContinue)). intros f Hle. destruct f as [|f]; [lia|]. apply stmt_continue.
    - intros fn lf Hd. cbn [doc_stmt] in Hd. subst lf. apply pack_any; [reflexivity|]. intros rest0 pv _.
      exists 1, (Some (kw TBreak)). intros f Hle. destruct f as [|f]; [lia|]. apply stmt_break.
    - intros m sp only fn lf Hd. apply pack_any; [reflexivity|]. apply import_case. exact Hd.
  Qed.

  (** * Part C: the program loop, at the fuel [parse_tokens] uses *)

  Lemma decl_fixed s fn lf rest0 pv fi : doc_stmt fn lf s -> sfollow rest0 ->
    15 * length (pr s ++ rest0) + 13 < fi ->
    exists pv', p_declaration fi (mkP (pr s ++ rest0) pv fn lf) = POk (exs s) (mkP rest0 pv' fn lf).
  Proof.
    intros Hd Hf Hfi. destruct (stmt_rt s fn lf Hd) as (_ & _ & H).
    destruct (H rest0 pv Hf) as (F & pv' & HF). exists pv'.
    destruct (nf_stmt_all fi) as (Hnf & _). specialize (Hnf (mkP (pr s ++ rest0) pv fn lf) Hfi).
    destruct (declaration_mono fi (fi + F) (mkP (pr s ++ rest0) pv fn lf) ltac:(lia)) as [E|E]; [contradiction|].
    rewrite E. apply HF. lia.
  Qed.

  Lemma program_loop_S f inner st stmts errs : program_loop (S f) inner st stmts errs =
    match rest st with
    | [] => ParsePanic PanicPeek
    | _ =>
      if at_end st then
        match errs with [] => ParseOk (rev stmts) | _ => ParseErr (rev errs) end
      else
        match match_tok TSoftSemi st with
        | (true, st1) => program_loop f inner st1 stmts errs
        | (false, _) =>
          match p_declaration inner st with
          | POk s st1 => program_loop f inner st1 (s :: stmts) errs
          | PErr e st1 => program_loop f inner (synchronize st1) stmts (e :: errs)
          | PPanic site => ParsePanic site
          | PFuel => ParseFuel
          end
        end
    end.
  Proof. reflexivity. Qed.

  Lemma program_loop_step f inner toks pv s st1 stmts : heads decl_heads toks ->
    p_declaration inner (mkP toks pv false false) = POk s st1 ->
    program_loop (S f) inner (mkP toks pv false false) stmts [] = program_loop f inner st1 (s :: stmts) [].
  Proof.
    intros Hh Hd. destruct toks as [|t X]; [destruct Hh|]. unfold heads in Hh.
    rewrite program_loop_S. cbn [rest].
    rewrite at_end_cons by (intros E; rewrite E in Hh; revert Hh; notin).
    rewrite match_tok_miss by (intros E; rewrite E in Hh; revert Hh; notin).
    rewrite Hd. reflexivity.
  Qed.

  Lemma prog_loop : forall p, doc_prog p -> forall fo fi pv acc, length p < fo ->
    15 * length (flat_map pr p ++ [eof0]) + 13 < fi ->
    program_loop fo fi (mkP (flat_map pr p ++ [eof0]) pv false false) acc [] = ParseOk (rev acc ++ map exs p).
  Proof.
    induction p as [|s p IH]; intros Hd fo fi pv acc Hfo Hfi.
    - destruct fo as [|fo]; [cbn [length] in Hfo; lia|]. cbn [flat_map app map]. rewrite app_nil_r. reflexivity.
    - destruct Hd as [Hs Hp]. cbn [length] in Hfo. destruct fo as [|fo]; [lia|].
      cbn [flat_map] in *. rewrite <- app_assoc in *.
      destruct (decl_fixed s false false (flat_map pr p ++ [eof0]) pv fi Hs) as (pv' & H1).
      { destruct p as [|s2 p2]; [cbn; discriminate|]. cbn [flat_map]. rewrite <- app_assoc. apply heads_sfollow, pr_heads. }
      { exact Hfi. }
      rewrite (program_loop_step _ _ _ _ _ _ _ (pr_heads full s _) H1).
      rewrite IH; [|exact Hp|lia|rewrite app_length in Hfi; lia].
      cbn [rev map]. rewrite <- app_assoc. reflexivity.
  Qed.

  Lemma prog_length p : length p <= length (flat_map pr p).
  Proof.
    induction p as [|s p IH]; [apply Nat.le_refl|]. cbn [flat_map length]. rewrite app_length.
    pose proof (pr_heads full s []) as Hh. rewrite app_nil_r in Hh.
    destruct (pr s) as [|t r]; [destruct Hh|]. cbn [length]. lia.
  Qed.
End Main.

(** * The theorems of Props/C09b.v *)

Theorem doc_grammar_accepted : forall full p, doc_prog p ->
  parse_tokens (pr_prog full p) = ParseOk (map (ex_stmt full) p).
Proof.
  intros full p Hd. unfold parse_tokens, pr_prog.
  rewrite (prog_loop full p Hd); [reflexivity| |].
  - pose proof (prog_length full p). rewrite app_length. cbn [length]. lia.
  - unfold fuel_for. lia.
Qed.

Lemma strip_ex_stmt full : forall s fn lf, doc_stmt fn lf s -> strip_stmt (ex_stmt full s) = strip_stmt s.
Proof.
  apply (stmt_ind2 (fun s => forall fn lf, doc_stmt fn lf s -> strip_stmt (ex_stmt full s) = strip_stmt s)).
  - intros e fn lf Hd. cbn [ex_stmt strip_stmt]. rewrite strip_expected by exact Hd. reflexivity.
  - intros c t e IHt IHe fn lf (Hc & Hbt & Hdt & Hde). unfold optP in IHe. cbn [ex_stmt strip_stmt].
    rewrite strip_expected by exact Hc. rewrite (IHt fn lf Hdt).
    destruct e as [el|]; [|reflexivity]. destruct Hde as [_ Hdel]. rewrite (IHe fn lf Hdel). reflexivity.
  - intros sp n b IHb fn lf (Hn & Hblk & Hdb). cbn [ex_stmt strip_stmt].
    rewrite strip_expected by exact Hn. rewrite (IHb fn true Hdb). reflexivity.
  - intros c b IHb fn lf (Hc & Hblk & Hdb). cbn [ex_stmt strip_stmt].
    rewrite strip_expected by exact Hc. rewrite (IHb fn true Hdb). reflexivity.
  - intros name a b l body IHb fn lf (Hl & Hblk & Hdb). cbn [ex_stmt strip_stmt].
    rewrite strip_expected by exact Hl. rewrite (IHb fn true Hdb). reflexivity.
  - intros name ex ps body IHb fn lf (Hlen & Hblk & Hdb). cbn [ex_stmt strip_stmt].
    rewrite (IHb true false Hdb). reflexivity.
  - intros ss IH fn lf Hd. apply doc_block in Hd. cbn [ex_stmt strip_stmt]. f_equal.
    rewrite map_map. apply map_ext_in. intros x Hin. rewrite Forall_forall in IH, Hd.
    apply (IH x Hin fn lf (Hd x Hin)).
  - intros [e|] fn lf Hd; [|reflexivity]. destruct Hd as [_ Hp]. cbn [ex_stmt strip_stmt].
    rewrite strip_expected by exact Hp. reflexivity.
  - reflexivity.
  - reflexivity.
  - intros m sp only fn lf _. cbn [ex_stmt strip_stmt]. destruct only as [l|]; [|reflexivity].
    rewrite map_map. reflexivity.
Qed.

Theorem strip_ex_prog : forall full p, doc_prog p ->
  map strip_stmt (map (ex_stmt full) p) = map strip_stmt p.
Proof.
  intros full p. induction p as [|s p IH]; intros Hd; [reflexivity|]. destruct Hd as [Hs Hp].
  cbn [map]. rewrite (strip_ex_stmt full s false false Hs), (IH Hp). reflexivity.
Qed.

(** * A concrete program of the documented grammar *)
Module Example.
  Open Scope string_scope.
  Definition v (s : string) : expr := EVar (txt s) z.
  Definition one : expr := ENum 1%float.

  Definition prog : list stmt :=
    [ SImport (txt "lib") (3, 4)%N None;
      SImport (txt "lib") z (Some [(txt "f", (1, 2)%N)]);
      SImport (txt "lib") z (Some [(txt "f", z); (txt "g", z); (txt "h", z)]);
      SProc (txt "p") true [txt "a"; txt "b"]
        (SBlock
           [ SIf (EBin BLess z (v "a") (v "b"))
                 (SBlock [SReturn (Some (EBin BPlus z (v "a") one))])
                 (Some (SIf (v "b") (SBlock [SReturn None])
                            (Some (SBlock [SBlock [SExpr (EAssign (txt "a") z z (EList z z [v "b"; one]))]]))));
             SRepeatTimes (5, 6)%N (EBin BStar z one (v "a"))
                          (SBlock [SIf (v "a") (SBlock [SBreak]) None; SContinue]);
             SRepeatUntil (EUn UNot z (v "a")) (SBlock [SBreak]);
             SForEach (txt "x") z z (ECall (txt "g") z z z [z] [v "a"])
                      (SBlock [SContinue; SExpr (ECall (txt "f") z z z [] [])]);
             SReturn None ]);
      SProc (txt "q") false [] (SBlock []);
      SIf ETrue (SBlock []) None;
      SExpr (ESet z z z z (v "l") one (EStr (txt "s"))) ].

  Example prog_is_doc : doc_prog prog.
  Proof. cbn. repeat split; try lia; auto. Qed.

  (* the two theorems on this program, and the same fact by evaluation *)
  Example prog_accepted : forall full, parse_tokens (pr_prog full prog) = ParseOk (map (ex_stmt full) prog).
  Proof. intros full. apply doc_grammar_accepted. exact prog_is_doc. Qed.

  Example prog_accepted_by_evaluation :
    parse_tokens (pr_prog false prog) = ParseOk (map (ex_stmt false) prog) /\
    parse_tokens (pr_prog true prog) = ParseOk (map (ex_stmt true) prog).
  Proof. split; vm_compute; reflexivity. Qed.
End Example.
