(** ParseSpec: what the front-end properties say about token sequences and syntax trees,
    independently of the parser's code. *)
From Aplang Require Import Base FloatX Token Ast.
Open Scope N_scope.

(** a token sequence as the scanner produces it: one end-of-input marker, last, and every
    number / string token carries its literal *)
Definition lit_ok (t : token) : Prop :=
  match tkind t with
  | TNumber => exists f, tlit t = LNum f
  | TStringLiteral => exists s, tlit t = LStr s
  | _ => True
  end.

Definition shaped (ts : list token) : Prop :=
  exists body eof, ts = body ++ [eof] /\ tkind eof = TEof /\
                   Forall (fun t => tkind t <> TEof) body /\ Forall lit_ok ts.

(** contextual well-formedness: RETURN only inside a procedure body, BREAK / CONTINUE only
    inside a loop of the same procedure body (or of the top level) *)
Fixpoint wf_stmt (in_fn in_loop : bool) (s : stmt) : Prop :=
  match s with
  | SExpr _ | SImport _ _ _ => True
  | SIf _ t e => wf_stmt in_fn in_loop t /\ match e with Some x => wf_stmt in_fn in_loop x | None => True end
  | SRepeatTimes _ _ b | SRepeatUntil _ b | SForEach _ _ _ _ b => wf_stmt in_fn true b
  | SProc _ _ params b => wf_stmt true false b /\ (length params <= 255)%nat
  | SBlock ss => (fix all (l : list stmt) : Prop := match l with [] => True | x :: r => wf_stmt in_fn in_loop x /\ all r end) ss
  | SReturn _ => in_fn = true
  | SContinue | SBreak => in_loop = true
  end.

Definition wf_prog (p : list stmt) : Prop := Forall (wf_stmt false false) p.
