(** ParseProofs: proofs about the parser model (ParseImpl) used by Props/C08.v and Props/C09.v.
    Structure:
    - the cursor relation [step] / [rel] and the Hoare-style predicate [post] (no panic under the
      cursor invariant, the cursor only moves forward over non-Eof tokens, flags are preserved,
      strict progress where a function must consume, contextual well-formedness of the tree);
    - one pass over the grammar functions proving [post] (by induction on fuel);
    - one pass proving that fuel above a linear measure is never exhausted;
    - the program loop and the theorems of the property files. *)
From Aplang Require Import Base FloatX Token Ast LexImpl LexSpec LexProofs ParseImpl ParseSpec.
From Aplang.Gen Require Import Generated.
Open Scope N_scope.

Notation lit_ok := ParseSpec.lit_ok.

(** * The scanner's output is shaped *)

Lemma lex_lit_ok t : LexProofs.lit_ok t -> lit_ok t.
Proof.
  unfold LexProofs.lit_ok, ParseSpec.lit_ok. destruct (tkind t); auto.
  - intros (ds & fs & _ & _ & _ & _ & H). eauto.
  - intros (b & v & _ & _ & H). eauto.
Qed.

Lemma lex_output_shaped : forall a s ts, lex_gen a s = LexOk ts -> shaped ts.
Proof.
  intros a s ts H. pose proof (lex_spans a s ts H) as (body & eof & E & Hk & _ & _ & _ & Hb & _).
  exists body, eof. split; [exact E|]. split; [exact Hk|]. split.
  - eapply Forall_impl; [|exact Hb]. cbn. intros t Ht. apply Ht.
  - apply Forall_forall. intros t Hin. apply lex_lit_ok.
    apply lex_sound in H. exact (Lexes_literals _ _ _ _ _ _ H t Hin).
Qed.

(** * Cursor relation *)

Definition noneof (t : token) : Prop := tkind t <> TEof.
Definition cursor_ok (st : pstate) : Prop := shaped (rest st).

Lemma shaped_suffix pre : forall l, Forall noneof pre -> shaped (pre ++ l) -> shaped l.
Proof.
  induction pre as [|t pre IH]; intros l Hp Hs; [exact Hs|].
  inversion Hp as [|? ? Ht Hp']; subst. apply IH; [exact Hp'|].
  destruct Hs as (body & eof & E & Hk & Hb & Hl). cbn [app] in E.
  destruct body as [|b body]; cbn [app] in E.
  - inversion E; subst. contradiction.
  - inversion E as [[E1 E2]]. subst b. exists body, eof. split; [exact E2|]. split; [exact Hk|]. split.
    + inversion Hb; assumption.
    + cbn [app] in Hl. inversion Hl; assumption.
Qed.

Lemma shaped_cons ts : shaped ts -> exists t r, ts = t :: r /\ lit_ok t.
Proof.
  intros (body & eof & E & _ & _ & Hl). destruct body as [|b body]; cbn [app] in E; subst ts.
  - exists eof, []. split; [reflexivity|]. inversion Hl; assumption.
  - exists b, (body ++ [eof]). split; [reflexivity|]. inversion Hl; assumption.
Qed.

Record step (st st' : pstate) : Prop := mkStep {
  st_suf : exists pre, rest st = pre ++ rest st' /\ Forall noneof pre;
  st_fn : in_fn st' = in_fn st;
  st_lp : in_loop st' = in_loop st;
  st_prev : prevt st <> None -> prevt st' <> None
}.

Definition moved (st st' : pstate) : Prop :=
  (length (rest st') < length (rest st))%nat /\ prevt st' <> None.

Definition rel (s : bool) (st st' : pstate) : Prop := step st st' /\ (s = true -> moved st st').

Lemma step_refl st : step st st.
Proof. split; auto. exists []. split; [reflexivity|constructor]. Qed.

Lemma step_le a b : step a b -> (length (rest b) <= length (rest a))%nat.
Proof. intros [(pre & E & _) _ _ _]. rewrite E, app_length. lia. Qed.

Lemma step_trans a b c : step a b -> step b c -> step a c.
Proof.
  intros [(p1 & E1 & F1) A1 B1 C1] [(p2 & E2 & F2) A2 B2 C2]. split.
  - exists (p1 ++ p2). split; [rewrite E1, E2, app_assoc; reflexivity|apply Forall_app; auto].
  - congruence.
  - congruence.
  - auto.
Qed.

Lemma step_cursor a b : step a b -> cursor_ok a -> cursor_ok b.
Proof. intros [(pre & E & F) _ _ _] H. unfold cursor_ok in *. rewrite E in H. eapply shaped_suffix; eauto. Qed.

Lemma rel_refl st : rel false st st.
Proof. split; [apply step_refl|discriminate]. Qed.

Lemma rel_step s a b : rel s a b -> step a b.
Proof. intros [H _]; exact H. Qed.

Lemma rel_weak s a b : rel s a b -> rel false a b.
Proof. intros [H _]. split; [exact H|discriminate]. Qed.

Lemma rel_le s a b : rel s a b -> (length (rest b) <= length (rest a))%nat.
Proof. intros [H _]. apply step_le; exact H. Qed.

Lemma rel_lt a b : rel true a b -> (length (rest b) < length (rest a))%nat.
Proof. intros [_ H]. apply H; reflexivity. Qed.

Lemma rel_prev a b : rel true a b -> prevt b <> None.
Proof. intros [_ H]. apply H; reflexivity. Qed.

Lemma rel_fn s a b : rel s a b -> in_fn b = in_fn a.
Proof. intros [H _]. apply st_fn; exact H. Qed.

Lemma rel_lp s a b : rel s a b -> in_loop b = in_loop a.
Proof. intros [H _]. apply st_lp; exact H. Qed.

Lemma rel_cursor s a b : rel s a b -> cursor_ok a -> cursor_ok b.
Proof. intros [H _]. apply step_cursor; exact H. Qed.

(* composition: strict on the left, or the strictness of the right *)
Lemma rel_trans_l s2 s a b c : rel true a b -> rel s2 b c -> rel s a c.
Proof.
  intros [H1 M1] [H2 _]. split; [eapply step_trans; eauto|]. intros _.
  destruct (M1 eq_refl) as [L P]. split.
  - pose proof (step_le _ _ H2). lia.
  - apply (st_prev _ _ H2). exact P.
Qed.

Lemma rel_trans_r s1 s a b c : rel s1 a b -> rel s b c -> rel s a c.
Proof.
  intros [H1 _] [H2 M2]. split; [eapply step_trans; eauto|]. intros E.
  destruct (M2 E) as [L P]. split.
  - pose proof (step_le _ _ H1). lia.
  - exact P.
Qed.

(** * Cursor primitives *)

Lemma advance_moves st t r : rest st = t :: r -> tkind t <> TEof ->
  advance st = mkP r (Some t) (in_fn st) (in_loop st) /\ rel true st (advance st).
Proof.
  intros E Hk. unfold advance. rewrite E.
  destruct (tk_eqb (tkind t) TEof) eqn:Et; [apply tk_eqb_eq in Et; contradiction|].
  split; [reflexivity|]. split.
  - split; cbn; auto.
    + exists [t]. rewrite E. split; [reflexivity|]. constructor; [exact Hk|constructor].
    + intros _; discriminate.
  - intros _. split; cbn; [rewrite E; cbn; lia|discriminate].
Qed.

Lemma check_true k st : check k st = true ->
  exists t r, rest st = t :: r /\ tkind t <> TEof /\ tkind t = k.
Proof.
  unfold check. destruct (rest st) as [|t r]; [discriminate|]. intro H.
  apply andb_true_iff in H as [H1 H2]. exists t, r. split; [reflexivity|]. split.
  - intro E. rewrite E in H1. discriminate.
  - apply tk_eqb_eq; exact H2.
Qed.

Lemma check_advance k st : check k st = true ->
  rel true st (advance st) /\ exists t r, rest st = t :: r /\ tkind t = k /\ prevt (advance st) = Some t.
Proof.
  intro H. apply check_true in H as (t & r & E & Hk & Hk').
  destruct (advance_moves st t r E Hk) as [Ea Hr]. split; [exact Hr|].
  exists t, r. rewrite Ea. cbn. auto.
Qed.

Lemma at_end_false st : at_end st = false -> exists t r, rest st = t :: r /\ tkind t <> TEof.
Proof.
  unfold at_end. destruct (rest st) as [|t r]; [discriminate|]. intro H. exists t, r. split; [reflexivity|].
  intro E. rewrite E in H. discriminate.
Qed.

Lemma at_end_advance st : at_end st = false -> rel true st (advance st).
Proof. intro H. apply at_end_false in H as (t & r & E & Hk). eapply advance_moves; eauto. Qed.

Lemma match_tok_cases k st :
  (match_tok k st = (true, advance st) /\ rel true st (advance st) /\
   exists t r, rest st = t :: r /\ tkind t = k /\ prevt (advance st) = Some t)
  \/ match_tok k st = (false, st).
Proof.
  unfold match_tok. destruct (check k st) eqn:E; [left|right; reflexivity].
  split; [reflexivity|apply check_advance; exact E].
Qed.

Lemma match_toks_cases ks st :
  (match_toks ks st = (true, advance st) /\ rel true st (advance st)) \/ match_toks ks st = (false, st).
Proof.
  induction ks as [|k ks IH]; cbn [match_toks]; [right; reflexivity|].
  destruct (check k st) eqn:E; [left|exact IH].
  split; [reflexivity|apply (check_advance k); exact E].
Qed.

Lemma set_flags_rest st a b : rest (set_flags st a b) = rest st.
Proof. reflexivity. Qed.

(** * The predicate on results.  [G] is a ghost hypothesis (instantiated with the shape of the
    whole token sequence): panics are excluded under [G], everything else is unconditional. *)

Section Safety.
Variable G : Prop.

Definition gok (st : pstate) : Prop := G -> cursor_ok st.

Lemma gok_rel s a b : rel s a b -> gok a -> gok b.
Proof. intros H Ha g. eapply rel_cursor; eauto. Qed.

Lemma gok_flags st a b : gok st -> gok (set_flags st a b).
Proof. intros H g. unfold cursor_ok. rewrite set_flags_rest. apply H; exact g. Qed.

Definition post {A} (s : bool) (Q : A -> Prop) (st : pstate) (r : pres A) : Prop :=
  match r with
  | POk x st' => Q x /\ rel s st st'
  | PErr _ st' => step st st'
  | PPanic _ => ~ G
  | PFuel => True
  end.

Definition E_ {A} : A -> Prop := fun _ => True.

Lemma post_ret {A} (Q : A -> Prop) st x : Q x -> post false Q st (POk x st).
Proof. intro H. split; [exact H|apply rel_refl]. Qed.

Lemma post_err {A} s (Q : A -> Prop) st e : post s Q st (PErr e st).
Proof. apply step_refl. Qed.

Lemma post_fail {A} s (Q : A -> Prop) st : post s Q st (fail st).
Proof. apply step_refl. Qed.

Lemma post_weak {A} s (Q : A -> Prop) st r : post s Q st r -> post false Q st r.
Proof. destruct r; cbn; auto. intros [H1 H2]. split; [exact H1|eapply rel_weak; eauto]. Qed.

Lemma post_mono {A} s (Q Q' : A -> Prop) st r : (forall x, Q x -> Q' x) -> post s Q st r -> post s Q' st r.
Proof. intro H. destruct r; cbn; auto. intros [H1 H2]. split; auto. Qed.

(* the rest of the computation runs from a later cursor *)
Lemma frame_l {A} s2 s (Q : A -> Prop) st st1 r : rel true st st1 -> post s2 Q st1 r -> post s Q st r.
Proof.
  intros H. destruct r; cbn; auto.
  - intros [H1 H2]. split; [exact H1|eapply rel_trans_l; eauto].
  - intro H1. eapply step_trans; [eapply rel_step; eauto|exact H1].
Qed.

Lemma frame_r {A} s1 s (Q : A -> Prop) st st1 r : rel s1 st st1 -> post s Q st1 r -> post s Q st r.
Proof.
  intros H. destruct r; cbn; auto.
  - intros [H1 H2]. split; [exact H1|eapply rel_trans_r; eauto].
  - intro H1. eapply step_trans; [eapply rel_step; eauto|exact H1].
Qed.

Lemma bind_l {A B} s2 s (Q1 : A -> Prop) (Q2 : B -> Prop) st (m : pres A) (k : A -> pstate -> pres B) :
  post true Q1 st m ->
  (forall x st1, Q1 x -> rel true st st1 -> post s2 Q2 st1 (k x st1)) ->
  post s Q2 st (pbind m k).
Proof.
  intros Hm Hk. destruct m as [x st1|e st1|site|]; cbn [pbind]; try exact Hm.
  destruct Hm as [H1 H2]. eapply frame_l; [exact H2|apply Hk; assumption].
Qed.

Lemma bind_r {A B} s1 s (Q1 : A -> Prop) (Q2 : B -> Prop) st (m : pres A) (k : A -> pstate -> pres B) :
  post s1 Q1 st m ->
  (forall x st1, Q1 x -> rel s1 st st1 -> post s Q2 st1 (k x st1)) ->
  post s Q2 st (pbind m k).
Proof.
  intros Hm Hk. destruct m as [x st1|e st1|site|]; cbn [pbind]; try exact Hm.
  destruct Hm as [H1 H2]. eapply frame_r; [exact H2|apply Hk; assumption].
Qed.

Lemma post_peek {A} s (Q : A -> Prop) st st0 (k : token -> pres A) :
  gok st ->
  (forall t r, rest st = t :: r -> (G -> lit_ok t) -> post s Q st0 (k t)) ->
  post s Q st0 (with_peek st k).
Proof.
  intros Hg H. unfold with_peek. destruct (rest st) as [|t r] eqn:E.
  - cbn. intro g. apply Hg in g. apply shaped_cons in g as (t & r & E' & _). congruence.
  - apply (H t r eq_refl). intro g. apply Hg in g. apply shaped_cons in g as (t' & r' & E' & Hl).
    rewrite E in E'. inversion E'; subst. exact Hl.
Qed.

Lemma post_prev {A} s (Q : A -> Prop) st st1 (k : token -> pres A) :
  prevt st1 <> None -> (forall t, prevt st1 = Some t -> post s Q st (k t)) -> post s Q st (with_prev st1 k).
Proof. intros Hp H. unfold with_prev. destruct (prevt st1) as [t|]; [apply H; reflexivity|contradiction]. Qed.

Lemma consume_lit s k rep st : gok st -> k <> TEof ->
  post s (fun p => tkind p = k /\ (G -> lit_ok p)) st (consume k rep st).
Proof.
  intros Hg Hk. unfold consume. apply post_peek; [exact Hg|]. intros t r E Hl.
  destruct (tk_eqb (tkind t) k) eqn:Et; [|apply post_err].
  apply tk_eqb_eq in Et. assert (Ht : tkind t <> TEof) by congruence.
  destruct (advance_moves st t r E Ht) as [Ea Hr].
  cbv zeta. apply post_prev; [eapply rel_prev; eauto|]. intros p Hp.
  rewrite Ea in Hp. cbn in Hp. inversion Hp; subst p.
  split; [auto|]. eapply rel_trans_l; [exact Hr|apply rel_refl].
Qed.

Lemma consume_post s k rep st : gok st -> k <> TEof -> post s E_ st (consume k rep st).
Proof. intros Hg Hk. eapply post_mono; [|apply consume_lit; assumption]. intros; exact I. Qed.

Ltac gk := eauto 30 using gok_rel, gok_flags.
Ltac prev_ok := first [eapply rel_prev; eassumption | assumption].
Ltac cons_ok := apply consume_post; [gk|discriminate].

(** * Expressions: no panic, forward cursor, progress *)

Definition safe_expr (f : nat) : Prop :=
  (forall l st, gok st -> post true E_ st (p_level f l st)) /\
  (forall rg e st, gok st -> post false E_ st (p_loop f rg e st)) /\
  (forall e sp st, gok st -> post false E_ st (p_access f e sp st)) /\
  (forall lim n st, gok st -> post true E_ st (p_items f lim n st)) /\
  (forall st, gok st -> post true E_ st (p_primary f st)).

Lemma safe_expr_all : forall f, safe_expr f.
Proof.
  induction f as [|f (IHl & IHlo & IHa & IHi & IHp)].
  { repeat split; intros; exact I. }
  assert (Hrung : forall rg st, gok st ->
            post true E_ st (do e, st1 <- p_level f (r_first rg) st; p_loop f rg e st1)).
  { intros rg st Hg. eapply (bind_l false); [apply IHl; gk|]. intros e st1 _ H1. apply IHlo; gk. }
  repeat split.
  - (* p_level *)
    intros l st Hg. cbn [p_level]. destruct l.
    + (* assignment *)
      eapply (bind_l false); [apply IHl; gk|]. intros e st1 _ H1.
      apply post_prev; [prev_ok|]. intros et _.
      destruct (match_tok_cases TArrow st1) as [(E & H2 & _)|E]; rewrite E.
      * apply post_prev; [prev_ok|]. intros arrow _.
        eapply (frame_r true); [exact H2|].
        eapply (bind_r true); [apply IHl; gk|]. intros v st3 _ H3.
        destruct e; try apply post_err; apply post_ret; exact I.
      * apply post_ret; exact I.
    + destruct (rung_of LvOr) as [rg|]; [apply Hrung; gk|apply post_fail].
    + destruct (rung_of LvAnd) as [rg|]; [apply Hrung; gk|apply post_fail].
    + destruct (rung_of LvEquality) as [rg|]; [apply Hrung; gk|apply post_fail].
    + destruct (rung_of LvComparison) as [rg|]; [apply Hrung; gk|apply post_fail].
    + destruct (rung_of LvAddition) as [rg|]; [apply Hrung; gk|apply post_fail].
    + destruct (rung_of LvMultiplication) as [rg|]; [apply Hrung; gk|apply post_fail].
    + (* unary *)
      destruct (match_toks_cases unary_ops st) as [[E H1]|E]; rewrite E.
      * apply post_prev; [prev_ok|]. intros tok _.
        eapply (frame_l false); [exact H1|].
        eapply (bind_r true); [apply IHl; gk|]. intros r st2 _ H2.
        destruct (assoc_tk (tkind tok) unop_of_token); [apply post_ret; exact I|apply post_fail].
      * apply IHl; gk.
    + (* access *)
      eapply (bind_l false); [apply IHl; gk|]. intros e st1 _ H1.
      apply post_prev; [prev_ok|]. intros et _. apply IHa; gk.
    + apply IHp; gk.
  - (* p_loop *)
    intros rg e st Hg. cbn [p_loop].
    destruct (match_toks_cases (r_ops rg) st) as [[E H1]|E]; rewrite E.
    + apply post_prev; [prev_ok|]. intros tok _.
      eapply (frame_r true); [exact H1|].
      eapply (bind_r true); [apply IHl; gk|]. intros r st2 _ H2.
      destruct (r_mk rg); [apply IHlo; gk|].
      destruct (assoc_tk (tkind tok) binop_of_token); [apply IHlo; gk|apply post_fail].
    + apply post_ret; exact I.
  - (* p_access *)
    intros e sp st Hg. cbn [p_access].
    destruct (match_tok_cases TLeftBracket st) as [(E & H1 & _)|E]; rewrite E.
    + apply post_prev; [prev_ok|]. intros lb _.
      eapply (frame_r true); [exact H1|].
      eapply (bind_r true); [apply IHl; gk|]. intros idx st2 _ H2.
      eapply (bind_r true); [cons_ok|]. intros rb st3 _ H3.
      apply IHa; gk.
    + apply post_ret; exact I.
  - (* p_items *)
    intros lim n st Hg. cbn [p_items].
    destruct (match lim with Some m => m <=? n | None => false end); [apply post_fail|].
    eapply (bind_l false); [apply IHl; gk|]. intros e st1 _ H1.
    apply post_peek; [gk|]. intros after r E _.
    destruct (match_tok_cases TComma st1) as [(E2 & H2 & _)|E2]; rewrite E2.
    + eapply (frame_r true); [exact H2|].
      eapply (bind_r true); [apply IHi; gk|]. intros more st3 _ H3. apply post_ret; exact I.
    + apply post_ret; exact I.
  - (* p_primary *)
    intros st Hg. cbn [p_primary]. apply post_peek; [gk|]. intros t r E Hlit.
    destruct (at_end st) eqn:Ee; [apply post_err|].
    pose proof (at_end_advance st Ee) as Hadv.
    destruct (tkind t) eqn:Ek; try apply post_err.
    + (* ( *)
      eapply (frame_l false); [exact Hadv|].
      eapply (bind_r true); [apply IHl; gk|]. intros e st2 _ H2.
      eapply (bind_r true); [cons_ok|]. intros rp st3 _ H3.
      apply post_ret; exact I.
    + (* [ *)
      eapply (frame_l false); [exact Hadv|].
      eapply (@bind_r _ _ false _ E_).
      { destruct (check TRightBracket (advance st)); [apply post_ret; exact I|eapply post_weak; apply IHi; gk]. }
      intros items st2 _ H2.
      eapply (bind_r true); [cons_ok|]. intros rb st3 _ H3.
      apply post_ret; exact I.
    + (* identifier *)
      destruct (match_tok_cases TLeftParen (advance st)) as [(E2 & H2 & _)|E2]; rewrite E2.
      * apply post_prev; [prev_ok|]. intros lp _.
        eapply (frame_l false); [exact Hadv|]. eapply (frame_r true); [exact H2|].
        eapply (@bind_r _ _ false _ E_).
        { destruct (check TRightParen (advance (advance st)));
            [apply post_ret; exact I|eapply post_weak; apply IHi; gk]. }
        intros items st3 _ H3.
        eapply (bind_r true); [cons_ok|]. intros rp st4 _ H4.
        apply post_ret; exact I.
      * split; [exact I|exact Hadv].
    + (* number *)
      destruct (tlit t) eqn:El; try (split; [exact I|exact Hadv]);
        (intro g; apply Hlit in g; unfold ParseSpec.lit_ok in g; rewrite Ek in g; destruct g as [v Hv]; congruence).
    + (* string *)
      destruct (tlit t) eqn:El; try (split; [exact I|exact Hadv]);
        (intro g; apply Hlit in g; unfold ParseSpec.lit_ok in g; rewrite Ek in g; destruct g as [v Hv]; congruence).
    + split; [exact I|exact Hadv].
    + split; [exact I|exact Hadv].
    + split; [exact I|exact Hadv].
Qed.

Lemma level_post f l st : gok st -> post true E_ st (p_level f l st).
Proof. apply safe_expr_all. Qed.

Lemma expression_post f st : gok st -> post true E_ st (p_expression f st).
Proof. apply level_post. Qed.

(** * Lists of formal parameters, import name lists, statement terminators *)

Lemma params_post : forall f n st, gok st ->
  post true (fun ps => N.of_nat (length ps) + n <= 255) st (p_params f n st).
Proof.
  induction f as [|f IH]; intros n st Hg; [exact I|]. cbn [p_params].
  destruct (255 <=? n) eqn:En; [apply post_fail|]. apply N.leb_gt in En.
  eapply (bind_l false); [cons_ok|]. intros t st1 _ H1.
  destruct (match_tok_cases TComma st1) as [(E & H2 & _)|E]; rewrite E.
  - eapply (frame_r true); [exact H2|].
    eapply (bind_r true); [apply IH; gk|]. intros more st3 Hm H3.
    apply post_ret. cbn beta in Hm. cbn [length]. rewrite Nat2N.inj_succ. lia.
  - apply post_ret. cbn [length]. lia.
Qed.

Definition str_ok (t : token) : Prop := exists s, tlit t = LStr s.

Lemma str_ok_lit t : tkind t = TStringLiteral -> lit_ok t -> str_ok t.
Proof. unfold ParseSpec.lit_ok, str_ok. intros ->. auto. Qed.

Lemma import_names_post : forall f lb acc st, gok st -> (G -> Forall str_ok acc) ->
  post true (fun ts => G -> Forall str_ok ts) st (p_import_names f lb acc st).
Proof.
  induction f as [|f IH]; intros lb acc st Hg Hacc; [exact I|]. cbn [p_import_names].
  destruct (63 <=? N.of_nat (length acc)) eqn:En.
  { destruct acc as [|last acc]; [vm_compute in En; discriminate|apply post_err]. }
  eapply (bind_l false); [apply consume_lit; [gk|discriminate]|]. intros t st1 [Hk Hl] H1.
  assert (Hacc' : G -> Forall str_ok (t :: acc)).
  { intro g. constructor; [apply str_ok_lit; auto|auto]. }
  destruct (match_tok_cases TComma st1) as [(E & H2 & _)|E]; rewrite E.
  - eapply (frame_r true); [exact H2|]. eapply post_weak. apply IH; [gk|exact Hacc'].
  - apply post_ret. intro g. apply Forall_rev. apply Hacc'; exact g.
Qed.

Lemma end_of_statement_post st : gok st -> post false E_ st (end_of_statement st).
Proof.
  intro Hg. unfold end_of_statement.
  destruct (at_end st || check TRightBrace st); [apply post_ret; exact I|].
  eapply (bind_r true); [cons_ok|]. intros; apply post_ret; exact I.
Qed.

Lemma post_restore {A} s (Q : A -> Prop) st a b r :
  post s Q (set_flags st a b) r -> post s Q st (restore (in_fn st) (in_loop st) r).
Proof.
  assert (Hst : forall st', step (set_flags st a b) st' -> step st (set_flags st' (in_fn st) (in_loop st))).
  { intros st' [Hs _ _ Hp]. split; cbn; auto. }
  destruct r as [x st'|e st'|site|]; cbn [restore post]; auto.
  intros [H1 [H2 H3]]. split; [exact H1|]. split; [apply Hst; exact H2|].
  intro Es. destruct (H3 Es) as [L P]. split; cbn; auto.
Qed.

(** * Statements: no panic, forward cursor, progress, flags, contextual well-formedness *)

Lemma wf_block fn lp ss : wf_stmt fn lp (SBlock ss) <-> Forall (wf_stmt fn lp) ss.
Proof.
  cbn [wf_stmt]. induction ss as [|x r IH]; split; intro H.
  - constructor.
  - exact I.
  - destruct H as [H1 H2]. constructor; [exact H1|apply IH; exact H2].
  - inversion H; subst. split; [assumption|apply IH; assumption].
Qed.

Definition wfq (st : pstate) : stmt -> Prop := wf_stmt (in_fn st) (in_loop st).
Definition wfl (st : pstate) : stmt -> Prop := fun s => forall lp, wf_stmt (in_fn st) lp s.

Lemma wfq_rel s st st1 : rel s st st1 -> wfq st1 = wfq st.
Proof. intro H. unfold wfq. rewrite (rel_fn _ _ _ H), (rel_lp _ _ _ H). reflexivity. Qed.

Ltac fl H := rewrite <- (wfq_rel _ _ _ H) in *.

Definition safe_stmt (f : nat) : Prop :=
  (forall st, gok st -> post true (wfq st) st (p_declaration f st)) /\
  (forall st, gok st -> prevt st <> None -> post true (wfq st) st (p_procedure f st)) /\
  (forall st, gok st -> post true (wfq st) st (p_statement f st)) /\
  (forall st, gok st -> post true (wfq st) st (p_expr_stmt f st)) /\
  (forall lb acc st, gok st -> Forall (wfq st) acc -> post true (wfq st) st (p_block f lb acc st)) /\
  (forall t st, gok st -> post true (wfq st) st (p_if f t st)) /\
  (forall st, gok st -> in_loop st = true -> post true (wfl st) st (p_repeat_times f st)) /\
  (forall st, gok st -> in_loop st = true -> post true (wfl st) st (p_repeat_until f st)) /\
  (forall st, gok st -> in_loop st = true -> post true (wfl st) st (p_for_each f st)) /\
  (forall st, gok st -> post true (wfq st) st (p_import f st)).

Lemma safe_stmt_all : forall f, safe_stmt f.
Proof.
  induction f as [|f (IHd & IHpr & IHs & IHes & IHb & IHif & IHrt & IHru & IHfe & IHim)].
  { repeat split; intros; exact I. }
  repeat split.
  - (* p_declaration *)
    intros st Hg. cbn [p_declaration].
    destruct (match_toks_cases [TExport; TProcedure] st) as [[E H1]|E]; rewrite E.
    + eapply frame_l; [exact H1|]. fl H1. apply IHpr; [gk|prev_ok].
    + apply IHs; gk.
  - (* p_procedure *)
    intros st Hg Hp. cbn [p_procedure]. apply post_prev; [exact Hp|]. intros eop _.
    eapply (@bind_r _ _ false _ E_).
    { destruct (tk_eqb (tkind eop) TExport); [|apply post_ret; exact I].
      eapply (bind_r true); [cons_ok|]. intros; apply post_ret; exact I. }
    intros [proc_token exported] st1 _ H1. fl H1.
    eapply (bind_l false); [cons_ok|]. intros name st2 _ H2. fl H2.
    eapply (bind_r true); [cons_ok|]. intros _lp st3 _ H3. fl H3.
    eapply (@bind_r _ _ false _ (fun ps => (length ps <= 255)%nat)).
    { destruct (check TRightParen st3); [apply post_ret; cbn; lia|].
      eapply post_weak. eapply post_mono; [|apply params_post; gk]. cbn beta. intros; lia. }
    intros params st4 Hps H4. fl H4.
    eapply (bind_r true); [cons_ok|]. intros _rp st5 _ H5. fl H5.
    eapply (@bind_r _ _ true _ (wf_stmt true false)).
    { apply (post_restore _ _ _ true false). apply IHs; gk. }
    intros body st6 Hb H6. apply post_ret. unfold wfq. cbn [wf_stmt]. split; assumption.
  - (* p_statement *)
    intros st Hg. cbn [p_statement]. apply post_peek; [gk|]. intros t r E _.
    destruct (at_end st) eqn:Ee; [apply IHes; gk|].
    pose proof (at_end_advance st Ee) as Hadv.
    pose proof (rel_fn _ _ _ Hadv) as Hfn. pose proof (rel_lp _ _ _ Hadv) as Hlp.
    destruct (tkind t) eqn:Ek; try (apply IHes; gk).
    + (* { *)
      eapply frame_l; [exact Hadv|]. fl Hadv. apply IHb; [gk|constructor].
    + (* IF *)
      eapply frame_l; [exact Hadv|]. fl Hadv. apply IHif; gk.
    + (* REPEAT *)
      eapply frame_l; [exact Hadv|]. fl Hadv. apply (post_restore _ _ _ (in_fn (advance st)) true).
      eapply post_mono; [|destruct (check TUntil (set_flags (advance st) (in_fn (advance st)) true));
                           [apply IHru|apply IHrt]; [gk|reflexivity|gk|reflexivity]].
      intros x Hx. apply Hx.
    + (* FOR *)
      eapply frame_l; [exact Hadv|]. fl Hadv. apply (post_restore _ _ _ (in_fn (advance st)) true).
      eapply post_mono; [|apply IHfe; [gk|reflexivity]]. intros x Hx. apply Hx.
    + (* CONTINUE *)
      destruct (in_loop (advance st)) eqn:El; [|eapply rel_step; exact Hadv].
      split; [|exact Hadv]. unfold wfq. cbn [wf_stmt]. congruence.
    + (* BREAK *)
      destruct (in_loop (advance st)) eqn:El; [|eapply rel_step; exact Hadv].
      split; [|exact Hadv]. unfold wfq. cbn [wf_stmt]. congruence.
    + (* RETURN *)
      destruct (in_fn (advance st)) eqn:Ef; cbn [negb]; [|eapply rel_step; exact Hadv].
      assert (Hw : forall e, wfq st (SReturn e)) by (intro; unfold wfq; cbn [wf_stmt]; congruence).
      destruct (at_end (advance st) || check TRightBrace (advance st)); [split; [apply Hw|exact Hadv]|].
      destruct (match_tok_cases TSoftSemi (advance st)) as [(E2 & H2 & _)|E2]; rewrite E2.
      * split; [apply Hw|]. eapply rel_trans_l; eauto.
      * eapply (frame_l false); [exact Hadv|].
        eapply (bind_r true); [apply expression_post; gk|]. intros e st2 _ H2.
        eapply (bind_r false); [apply end_of_statement_post; gk|]. intros _u st3 _ H3.
        apply post_ret. apply Hw.
    + (* IMPORT *)
      eapply frame_l; [exact Hadv|]. fl Hadv. apply IHim; gk.
  - (* p_expr_stmt *)
    intros st Hg. cbn [p_expr_stmt].
    eapply (bind_l false); [apply expression_post; gk|]. intros e st1 _ H1.
    destruct (at_end st1); [apply post_ret; exact I|].
    destruct (check TRightBrace st1); [apply post_ret; exact I|].
    eapply (bind_r true); [cons_ok|]. intros; apply post_ret; exact I.
  - (* p_block *)
    intros lb acc st Hg Hacc. cbn [p_block].
    destruct (negb (check TRightBrace st) && negb (at_end st)).
    + destruct (match_tok_cases TSoftSemi st) as [(E & H1 & _)|E]; rewrite E.
      * eapply frame_l; [exact H1|]. fl H1. apply IHb; [gk|exact Hacc].
      * eapply (bind_l false); [apply IHd; gk|]. intros s st1 Hs H1. fl H1.
        eapply post_weak. apply IHb; [gk|constructor; assumption].
    + eapply (bind_l false); [cons_ok|]. intros _rb st1 _ H1.
      apply post_ret. apply wf_block. apply Forall_rev. exact Hacc.
  - (* p_if *)
    intros t st Hg. cbn [p_if].
    eapply (bind_l false); [cons_ok|]. intros _lp st1 _ H1. fl H1.
    eapply (bind_r true); [apply expression_post; gk|]. intros c st2 _ H2. fl H2.
    eapply (bind_r true); [cons_ok|]. intros _rp st3 _ H3. fl H3.
    eapply (bind_r true); [apply IHs; gk|]. intros th st4 Hth H4. fl H4.
    destruct (match_tok_cases TElse st4) as [(E & H5 & _)|E]; rewrite E.
    + eapply (frame_r true); [exact H5|]. fl H5.
      eapply (bind_r true); [apply IHs; gk|]. intros el st6 Hel H6.
      apply post_ret. unfold wfq in *. cbn [wf_stmt]. auto.
    + apply post_ret. unfold wfq in *. cbn [wf_stmt]. auto.
  - (* p_repeat_times *)
    intros st Hg Hl. cbn [p_repeat_times].
    eapply (bind_l false); [apply expression_post; gk|]. intros n st1 _ H1.
    apply post_prev; [prev_ok|]. intros ct _.
    eapply (bind_r true); [cons_ok|]. intros _t st2 _ H2.
    eapply (bind_r true); [apply IHs; gk|]. intros body st3 Hb H3.
    apply post_ret. intros lp. cbn [wf_stmt]. unfold wfq in Hb.
    rewrite (rel_fn _ _ _ H2), (rel_fn _ _ _ H1), (rel_lp _ _ _ H2), (rel_lp _ _ _ H1), Hl in Hb. exact Hb.
  - (* p_repeat_until *)
    intros st Hg Hl. cbn [p_repeat_until].
    eapply (bind_l false); [cons_ok|]. intros ut st1 _ H1.
    eapply (bind_r true); [cons_ok|]. intros _lp st2 _ H2.
    eapply (bind_r true); [apply expression_post; gk|]. intros c st3 _ H3.
    eapply (bind_r true); [cons_ok|]. intros _rp st4 _ H4.
    eapply (bind_r true); [apply IHs; gk|]. intros body st5 Hb H5.
    apply post_ret. intros lp. cbn [wf_stmt]. unfold wfq in Hb.
    rewrite (rel_fn _ _ _ H4), (rel_fn _ _ _ H3), (rel_fn _ _ _ H2), (rel_fn _ _ _ H1),
            (rel_lp _ _ _ H4), (rel_lp _ _ _ H3), (rel_lp _ _ _ H2), (rel_lp _ _ _ H1), Hl in Hb. exact Hb.
  - (* p_for_each *)
    intros st Hg Hl. cbn [p_for_each].
    eapply (bind_l false); [cons_ok|]. intros et st1 _ H1.
    eapply (bind_r true); [cons_ok|]. intros item st2 _ H2.
    eapply (bind_r true); [cons_ok|]. intros _in st3 _ H3.
    eapply (bind_r true); [apply expression_post; gk|]. intros l st4 _ H4.
    apply post_prev; [prev_ok|]. intros lt _.
    eapply (bind_r true); [apply IHs; gk|]. intros body st5 Hb H5.
    apply post_ret. intros lp. cbn [wf_stmt]. unfold wfq in Hb.
    rewrite (rel_fn _ _ _ H4), (rel_fn _ _ _ H3), (rel_fn _ _ _ H2), (rel_fn _ _ _ H1),
            (rel_lp _ _ _ H4), (rel_lp _ _ _ H3), (rel_lp _ _ _ H2), (rel_lp _ _ _ H1), Hl in Hb. exact Hb.
  - (* p_import *)
    intros st Hg. cbn [p_import].
    eapply (@bind_r _ _ false _ (fun only => G -> match only with Some ts => Forall str_ok ts | None => True end)).
    { destruct (match_tok_cases TLeftBracket st) as [(E & H1 & _)|E]; rewrite E.
      - apply post_prev; [prev_ok|]. intros lbr _.
        eapply (frame_r true); [exact H1|].
        eapply (bind_r true); [apply import_names_post; [gk|constructor]|]. intros names s2 Hn H2.
        eapply (bind_r true); [cons_ok|]. intros _rb s3 _ H3. apply post_ret. exact Hn.
      - destruct (match_tok_cases TStringLiteral st) as [(E2 & H2 & (t & r & Er & Hk & Hpv))|E2]; rewrite E2.
        + apply post_prev; [prev_ok|]. intros one Hone.
          split; [|eapply rel_weak; exact H2]. intro g. constructor; [|constructor].
          rewrite Hpv in Hone. inversion Hone; subst one. apply str_ok_lit; [exact Hk|].
          apply Hg in g. apply shaped_cons in g as (t' & r' & E' & Hl').
          rewrite Er in E'. inversion E'; subst. exact Hl'.
        + apply post_ret. auto. }
    intros only st1 Honly H1.
    eapply (@bind_r _ _ false _ E_).
    { destruct only; [|apply post_ret; exact I].
      eapply (bind_r true); [cons_ok|]. intros; apply post_ret; exact I. }
    intros _from st2 _ H2.
    eapply (bind_l false); [cons_ok|]. intros _mod st3 _ H3.
    eapply (bind_r true); [apply consume_lit; [gk|discriminate]|]. intros name st4 [Hnk Hnl] H4.
    eapply (bind_r false); [apply end_of_statement_post; gk|]. intros _u st5 _ H5.
    destruct (lit_string name) as [m|] eqn:Em.
    + destruct only as [ts|].
      * destruct (names_of ts) as [o|] eqn:Eo; cbn [option_map]; [apply post_ret; exact I|].
        intro g. specialize (Honly g). clear - Honly Eo.
        induction ts as [|x ts IH] in Honly, Eo |- *; cbn [names_of] in Eo; [discriminate|].
        inversion Honly as [|? ? [sx Hx] Hts]; subst. unfold lit_string in Eo. rewrite Hx in Eo.
        destruct (names_of ts); [discriminate|]. apply IH; auto.
      * apply post_ret; exact I.
    + intro g. specialize (Hnl g). apply (str_ok_lit _ Hnk) in Hnl. destruct Hnl as [sx Hx].
      unfold lit_string in Em. rewrite Hx in Em. discriminate.
Qed.
End Safety.

(** * Error recovery *)

Lemma sync_loop_step : forall f st, step st (sync_loop f st).
Proof.
  induction f as [|f IH]; intro st; cbn [sync_loop]; [apply step_refl|].
  destruct (at_end st) eqn:Ee; [apply step_refl|].
  destruct (peek_kind st) as [k|]; [|apply step_refl].
  destruct (tk_in k sync_set); [apply step_refl|].
  eapply step_trans; [eapply rel_step; apply at_end_advance; exact Ee|apply IH].
Qed.

Lemma synchronize_step st : step st (synchronize st).
Proof.
  unfold synchronize. destruct sync_advances_first; [|apply sync_loop_step].
  eapply step_trans; [|apply sync_loop_step].
  unfold advance. destruct (rest st) as [|t r] eqn:E; [apply step_refl|].
  destruct (tk_eqb (tkind t) TEof) eqn:Et; [apply step_refl|].
  assert (Ht : tkind t <> TEof) by (intro H; apply tk_eqb_eq in H; congruence).
  destruct (advance_moves st t r E Ht) as [Ea Hr]. rewrite <- Ea. eapply rel_step; exact Hr.
Qed.

Lemma synchronize_progress : forall st t r,
  rest st = t :: r -> tkind t <> TEof -> (length (rest (synchronize st)) < length (rest st))%nat.
Proof.
  intros st t r E Ht. unfold synchronize.
  change sync_advances_first with true. cbv iota zeta.
  destruct (advance_moves st t r E Ht) as [_ Hr].
  pose proof (rel_lt _ _ Hr). pose proof (step_le _ _ (sync_loop_step (length (rest (advance st))) (advance st))). lia.
Qed.

Lemma declaration_progress : forall f st,
  match p_declaration f st with
  | POk _ st' => (length (rest st') < length (rest st))%nat
  | PErr _ st' => (length (rest st') <= length (rest st))%nat
  | _ => True
  end.
Proof.
  intros f st. destruct (safe_stmt_all False f) as (Hd & _).
  assert (Hg : gok False st) by (intros []). specialize (Hd st Hg).
  destruct (p_declaration f st) as [x st'|e st'|site|]; cbn in Hd; auto.
  - destruct Hd as [_ H]. apply rel_lt; exact H.
  - apply step_le; exact Hd.
Qed.

(** * The program loop *)

Lemma program_loop_post (G : Prop) inner : forall fuel st stmts errs,
  gok G st -> in_fn st = false -> in_loop st = false -> Forall (wf_stmt false false) stmts ->
  match program_loop fuel inner st stmts errs with
  | ParseOk p => wf_prog p
  | ParseErr es => es <> []
  | ParsePanic _ => ~ G
  | ParseFuel => True
  end.
Proof.
  induction fuel as [|fuel IH]; intros st stmts errs Hg Hfn Hlp Hwf; [exact I|].
  cbn [program_loop]. destruct (rest st) as [|t0 r0] eqn:Er.
  { intro g. apply Hg in g. apply shaped_cons in g as (t & r & E & _). congruence. }
  destruct (at_end st).
  { destruct errs as [|e errs].
    - unfold wf_prog. apply Forall_rev. exact Hwf.
    - cbn [rev]. intro H. apply app_eq_nil in H as [_ H]. discriminate. }
  destruct (match_tok_cases TSoftSemi st) as [(E & H1 & _)|E]; rewrite E.
  { apply IH; [eapply gok_rel; eauto| | |exact Hwf].
    - rewrite (rel_fn _ _ _ H1); exact Hfn.
    - rewrite (rel_lp _ _ _ H1); exact Hlp. }
  destruct (safe_stmt_all G inner) as (Hd & _). specialize (Hd st Hg).
  destruct (p_declaration inner st) as [s st1|e st1|site|]; cbn [post] in Hd.
  - destruct Hd as [Hs H1]. apply IH; [eapply gok_rel; eauto| | |].
    + rewrite (rel_fn _ _ _ H1); exact Hfn.
    + rewrite (rel_lp _ _ _ H1); exact Hlp.
    + constructor; [|exact Hwf]. unfold wfq in Hs. rewrite Hfn, Hlp in Hs. exact Hs.
  - pose proof (step_trans _ _ _ Hd (synchronize_step st1)) as H1.
    assert (H1' : rel false st (synchronize st1)) by (split; [exact H1|discriminate]).
    apply IH; [eapply gok_rel; eauto| | |exact Hwf].
    + rewrite (rel_fn _ _ _ H1'); exact Hfn.
    + rewrite (rel_lp _ _ _ H1'); exact Hlp.
  - exact Hd.
  - exact I.
Qed.

Lemma parse_no_panic : forall ts, shaped ts -> forall site, parse_tokens ts <> ParsePanic site.
Proof.
  intros ts Hs site E. unfold parse_tokens in E.
  pose proof (program_loop_post (shaped ts) (fuel_for ts) (S (S (length ts))) (mkP ts None false false) [] []) as H.
  rewrite E in H. apply H; auto. intros g; exact g.
Qed.

Lemma parse_wf : forall ts p, parse_tokens ts = ParseOk p -> wf_prog p.
Proof.
  intros ts p E. unfold parse_tokens in E.
  pose proof (program_loop_post False (fuel_for ts) (S (S (length ts))) (mkP ts None false false) [] []) as H.
  rewrite E in H. apply H; auto. intros [].
Qed.

Lemma rejection_has_diagnostic : forall ts es, parse_tokens ts = ParseErr es -> es <> [].
Proof.
  intros ts p E. unfold parse_tokens in E.
  pose proof (program_loop_post False (fuel_for ts) (S (S (length ts))) (mkP ts None false false) [] []) as H.
  rewrite E in H. apply H; auto. intros [].
Qed.

Lemma misplaced_rejected : forall ts p, parse_tokens ts = ParseOk p ->
  ~ In (SReturn None) p /\ ~ In SBreak p /\ ~ In SContinue p /\ forall e, ~ In (SReturn (Some e)) p.
Proof.
  intros ts p E. apply parse_wf in E. unfold wf_prog in E. rewrite Forall_forall in E.
  split; [|split; [|split; [|intro e]]]; intro Hin; apply E in Hin; cbn in Hin; discriminate.
Qed.

Lemma accepts_example :
  exists p, (match lex (txt "PROCEDURE f(n) { IF (n) { RETURN 1 } RETURN }"%string) with
             | LexOk ts => parse_tokens ts | _ => ParseFuel end) = ParseOk p /\ wf_prog p.
Proof.
  eexists. split; [vm_compute; reflexivity|].
  repeat constructor.
Qed.

(** * Termination: fuel above a linear measure is never exhausted.
    The measure of a call is [15 * (tokens left) + rank]; the rank decreases along calls that do
    not consume a token (declaration 13 > statement 12 > statement forms 11 > item list 11 >
    assignment 10 > ... > primary 1 > the primary parser 0), loops have rank 0 because they
    are entered after a token was consumed. *)

Lemma gF st : gok False st.
Proof. intros []. Qed.

Lemma level_postF f l st : post False true E_ st (p_level f l st).
Proof. apply safe_expr_all. apply gF. Qed.
Lemma items_postF f lim n st : post False true E_ st (p_items f lim n st).
Proof. apply safe_expr_all. apply gF. Qed.
Lemma stmt_postF f st : post False true (wfq st) st (p_statement f st).
Proof. apply safe_stmt_all. apply gF. Qed.
Lemma decl_postF f st : post False true (wfq st) st (p_declaration f st).
Proof. apply safe_stmt_all. apply gF. Qed.

Lemma pbind_assoc {A B C} (m : pres A) (k1 : A -> pstate -> pres B) (k2 : B -> pstate -> pres C) :
  pbind (pbind m k1) k2 = pbind m (fun x st => pbind (k1 x st) k2).
Proof. destruct m; reflexivity. Qed.

Lemma nf_bind {A B} s (Q : A -> Prop) st (m : pres A) (k : A -> pstate -> pres B) :
  post False s Q st m -> m <> PFuel -> (forall x st1, rel s st st1 -> k x st1 <> PFuel) -> pbind m k <> PFuel.
Proof.
  intros Hp Hm Hk. destruct m; cbn [pbind]; try discriminate; [|congruence].
  destruct Hp as [_ Hr]. apply Hk; exact Hr.
Qed.

Lemma consume_nf k rep st : consume k rep st <> PFuel.
Proof.
  unfold consume, with_peek, with_prev. destruct (rest st); [discriminate|].
  destruct (tk_eqb _ _); [|discriminate]. cbv zeta. destruct (prevt _); discriminate.
Qed.

Lemma nf_consume {B} k rep st (kk : token -> pstate -> pres B) : k <> TEof ->
  (forall x st1, rel true st st1 -> kk x st1 <> PFuel) -> pbind (consume k rep st) kk <> PFuel.
Proof.
  intros Hk H. eapply nf_bind; [apply (consume_post False true); [apply gF|exact Hk]|apply consume_nf|exact H].
Qed.

Lemma nf_peek {A} st (k : token -> pres A) :
  (forall t r, rest st = t :: r -> k t <> PFuel) -> with_peek st k <> PFuel.
Proof. intro H. unfold with_peek. destruct (rest st) as [|t r]; [discriminate|]. eapply H; reflexivity. Qed.

Lemma nf_prev {A} st (k : token -> pres A) : (forall t, k t <> PFuel) -> with_prev st k <> PFuel.
Proof. intro H. unfold with_prev. destruct (prevt st); [apply H|discriminate]. Qed.

Lemma nf_restore {A} a b (r : pres A) : r <> PFuel -> restore a b r <> PFuel.
Proof. destruct r; cbn; congruence. Qed.

Lemma end_of_statement_nf st : end_of_statement st <> PFuel.
Proof.
  unfold end_of_statement. destruct (_ || _); [discriminate|].
  apply nf_consume; [discriminate|]. intros; discriminate.
Qed.

Definition c_lv (l : level) : nat :=
  match l with
  | LvAssignment => 10 | LvOr => 9 | LvAnd => 8 | LvEquality => 7 | LvComparison => 6 | LvAddition => 5
  | LvMultiplication => 4 | LvUnary => 3 | LvAccess => 2 | LvPrimary => 1
  end.

Lemma c_lv_le l : (c_lv l <= 10)%nat.
Proof. destruct l; cbn; lia. Qed.

(* the generated ladder descends: a callee that is entered without consuming a token has a smaller rank *)
Lemma ladder_first l rg : rung_of l = Some rg -> (c_lv (r_first rg) < c_lv l)%nat.
Proof. destruct l; vm_compute; intro H; inversion H; subst; lia. Qed.
Lemma c_assignment_first : (c_lv assignment_first < c_lv LvAssignment)%nat.
Proof. vm_compute; lia. Qed.
Lemma c_unary_else : (c_lv unary_else < c_lv LvUnary)%nat.
Proof. vm_compute; lia. Qed.
Lemma c_access_first : (c_lv access_first < c_lv LvAccess)%nat.
Proof. vm_compute; lia. Qed.

Ltac lt H := let L := fresh "L" in pose proof (rel_lt _ _ H) as L.
Ltac nf_level IHl :=
  eapply nf_bind; [apply level_postF|apply IHl; lia|].

Definition nf_expr (F : nat) : Prop :=
  (forall l st, (15 * length (rest st) + c_lv l < F)%nat -> p_level F l st <> PFuel) /\
  (forall rg e st, (15 * length (rest st) < F)%nat -> p_loop F rg e st <> PFuel) /\
  (forall e sp st, (15 * length (rest st) < F)%nat -> p_access F e sp st <> PFuel) /\
  (forall lim n st, (15 * length (rest st) + 11 < F)%nat -> p_items F lim n st <> PFuel) /\
  (forall st, (15 * length (rest st) < F)%nat -> p_primary F st <> PFuel).

Lemma nf_expr_all : forall F, nf_expr F.
Proof.
  induction F as [|f (IHl & IHlo & IHa & IHi & IHp)].
  { repeat split; intros; lia. }
  assert (Hrung : forall l rg st, rung_of l = Some rg -> (15 * length (rest st) + c_lv l < S f)%nat ->
            (do e, st1 <- p_level f (r_first rg) st; p_loop f rg e st1) <> PFuel).
  { intros l rg st Er Hn. pose proof (ladder_first _ _ Er).
    nf_level IHl. intros e st1 H1. lt H1. apply IHlo; lia. }
  pose proof c_assignment_first as Caf. pose proof c_unary_else as Cue. pose proof c_access_first as Cac.
  pose proof (c_lv_le assignment_value) as Cav. pose proof (c_lv_le unary_operand) as Cuo.
  pose proof (c_lv_le expression_entry) as Cee.
  cbn [c_lv] in Caf, Cue, Cac.
  repeat split.
  - (* p_level *)
    intros l st Hn. cbn [p_level]. destruct l.
    + cbn [c_lv] in Hn. nf_level IHl. intros e st1 H1. lt H1. apply nf_prev. intros et.
      destruct (match_tok_cases TArrow st1) as [(E & H2 & _)|E]; rewrite E; [|discriminate].
      apply nf_prev. intros arrow. lt H2. nf_level IHl. intros v st3 H3. destruct e; discriminate.
    + destruct (rung_of LvOr) as [rg|] eqn:Er; [eapply Hrung; eauto|discriminate].
    + destruct (rung_of LvAnd) as [rg|] eqn:Er; [eapply Hrung; eauto|discriminate].
    + destruct (rung_of LvEquality) as [rg|] eqn:Er; [eapply Hrung; eauto|discriminate].
    + destruct (rung_of LvComparison) as [rg|] eqn:Er; [eapply Hrung; eauto|discriminate].
    + destruct (rung_of LvAddition) as [rg|] eqn:Er; [eapply Hrung; eauto|discriminate].
    + destruct (rung_of LvMultiplication) as [rg|] eqn:Er; [eapply Hrung; eauto|discriminate].
    + cbn [c_lv] in Hn. destruct (match_toks_cases unary_ops st) as [[E H1]|E]; rewrite E.
      * apply nf_prev. intros tok. lt H1. nf_level IHl. intros r st2 H2.
        destruct (assoc_tk _ _); discriminate.
      * apply IHl; lia.
    + cbn [c_lv] in Hn. nf_level IHl. intros e st1 H1. lt H1. apply nf_prev. intros et. apply IHa; lia.
    + cbn [c_lv] in Hn. apply IHp; lia.
  - (* p_loop *)
    intros rg e st Hn. cbn [p_loop]. pose proof (c_lv_le (r_loop rg)).
    destruct (match_toks_cases (r_ops rg) st) as [[E H1]|E]; rewrite E; [|discriminate].
    apply nf_prev. intros tok. lt H1. nf_level IHl. intros r st2 H2. lt H2.
    destruct (r_mk rg); [apply IHlo; lia|].
    destruct (assoc_tk _ _); [apply IHlo; lia|discriminate].
  - (* p_access *)
    intros e sp st Hn. cbn [p_access].
    destruct (match_tok_cases TLeftBracket st) as [(E & H1 & _)|E]; rewrite E; [|discriminate].
    apply nf_prev. intros lb. lt H1. nf_level IHl. intros idx st2 H2. lt H2.
    apply nf_consume; [discriminate|]. intros rb st3 H3. lt H3. apply IHa; lia.
  - (* p_items *)
    intros lim n st Hn. cbn [p_items].
    destruct (match lim with Some m => m <=? n | None => false end); [discriminate|].
    nf_level IHl. intros e st1 H1. lt H1. apply nf_peek. intros after r E.
    destruct (match_tok_cases TComma st1) as [(E2 & H2 & _)|E2]; rewrite E2; [|discriminate].
    lt H2. eapply nf_bind; [apply items_postF|apply IHi; lia|]. intros; discriminate.
  - (* p_primary *)
    intros st Hn. cbn [p_primary]. apply nf_peek. intros t r E.
    destruct (at_end st) eqn:Ee; [discriminate|].
    pose proof (at_end_advance st Ee) as Hadv. lt Hadv.
    destruct (tkind t); try discriminate.
    + nf_level IHl. intros e st2 H2. apply nf_consume; [discriminate|]. intros; discriminate.
    + destruct (check TRightBracket (advance st));
        [cbn [pbind]|eapply nf_bind; [apply items_postF|apply IHi; lia|intros items st2 H2]];
        (apply nf_consume; [discriminate|]; intros; discriminate).
    + destruct (match_tok_cases TLeftParen (advance st)) as [(E2 & H2 & _)|E2]; rewrite E2; [|discriminate].
      apply nf_prev. intros lp. lt H2.
      destruct (check TRightParen (advance (advance st)));
        [cbn [pbind]|eapply nf_bind; [apply items_postF|apply IHi; lia|intros items st3 H3]];
        (apply nf_consume; [discriminate|]; intros; discriminate).
    + destruct (tlit t); discriminate.
    + destruct (tlit t); discriminate.
Qed.

Lemma expression_nf f st : (15 * length (rest st) + 10 < f)%nat -> p_expression f st <> PFuel.
Proof.
  intro H. unfold p_expression. apply nf_expr_all. pose proof (c_lv_le expression_entry). lia.
Qed.

Lemma expression_postF f st : post False true E_ st (p_expression f st).
Proof. apply level_postF. Qed.

Lemma params_nf : forall F n st, (length (rest st) < F)%nat -> p_params F n st <> PFuel.
Proof.
  induction F as [|f IH]; intros n st Hn; [lia|]. cbn [p_params].
  destruct (255 <=? n); [discriminate|].
  apply nf_consume; [discriminate|]. intros t st1 H1. lt H1.
  destruct (match_tok_cases TComma st1) as [(E & H2 & _)|E]; rewrite E; [|discriminate].
  lt H2. eapply nf_bind; [apply (params_post False); apply gF|apply IH; lia|]. intros; discriminate.
Qed.

Lemma import_names_nf : forall F lb acc st, (length (rest st) < F)%nat -> p_import_names F lb acc st <> PFuel.
Proof.
  induction F as [|f IH]; intros lb acc st Hn; [lia|]. cbn [p_import_names].
  destruct (63 <=? N.of_nat (length acc)); [destruct acc; discriminate|].
  apply nf_consume; [discriminate|]. intros t st1 H1. lt H1.
  destruct (match_tok_cases TComma st1) as [(E & H2 & _)|E]; rewrite E; [|discriminate].
  lt H2. apply IH; lia.
Qed.

Ltac nf_expression :=
  eapply nf_bind; [apply expression_postF|apply expression_nf; lia|].
Ltac nf_cons := apply nf_consume; [discriminate|].

Definition nf_stmt (F : nat) : Prop :=
  (forall st, (15 * length (rest st) + 13 < F)%nat -> p_declaration F st <> PFuel) /\
  (forall st, (15 * length (rest st) + 11 < F)%nat -> p_procedure F st <> PFuel) /\
  (forall st, (15 * length (rest st) + 12 < F)%nat -> p_statement F st <> PFuel) /\
  (forall st, (15 * length (rest st) + 11 < F)%nat -> p_expr_stmt F st <> PFuel) /\
  (forall lb acc st, (15 * length (rest st) + 14 < F)%nat -> p_block F lb acc st <> PFuel) /\
  (forall t st, (15 * length (rest st) + 11 < F)%nat -> p_if F t st <> PFuel) /\
  (forall st, (15 * length (rest st) + 11 < F)%nat -> p_repeat_times F st <> PFuel) /\
  (forall st, (15 * length (rest st) + 11 < F)%nat -> p_repeat_until F st <> PFuel) /\
  (forall st, (15 * length (rest st) + 11 < F)%nat -> p_for_each F st <> PFuel) /\
  (forall st, (15 * length (rest st) + 11 < F)%nat -> p_import F st <> PFuel).

Lemma nf_stmt_all : forall F, nf_stmt F.
Proof.
  induction F as [|f (IHd & IHpr & IHs & IHes & IHb & IHif & IHrt & IHru & IHfe & IHim)].
  { repeat split; intros; lia. }
  repeat split.
  - (* p_declaration *)
    intros st Hn. cbn [p_declaration].
    destruct (match_toks_cases [TExport; TProcedure] st) as [[E H1]|E]; rewrite E.
    + lt H1. apply IHpr; lia.
    + apply IHs; lia.
  - (* p_procedure *)
    intros st Hn. cbn [p_procedure]. apply nf_prev. intros eop.
    eapply (nf_bind false E_).
    { destruct (tk_eqb (tkind eop) TExport); [|apply post_ret; exact I].
      eapply (bind_r False true); [apply consume_post; [apply gF|discriminate]|].
      intros; apply post_ret; exact I. }
    { destruct (tk_eqb (tkind eop) TExport); [|discriminate]. nf_cons. intros; discriminate. }
    intros [proc_token exported] st1 H1. pose proof (rel_le _ _ _ H1) as L1.
    nf_cons. intros name st2 H2. lt H2. nf_cons. intros _lp st3 H3. lt H3.
    assert (Hk : forall params st4, (length (rest st4) <= length (rest st3))%nat ->
              (do _rp, st5 <- consume TRightParen (fun t => mkPErr PC_missing_rp [tspan t]) st4;
               do body, st6 <- restore (in_fn st5) (in_loop st5) (p_statement f (set_flags st5 true false));
               POk (SProc (tlex name) exported params body) st6) <> PFuel).
    { intros params st4 H4. nf_cons. intros _rp st5 H5. lt H5.
      eapply nf_bind; [apply (post_restore False _ _ _ true false); apply stmt_postF| |intros; discriminate].
      apply nf_restore. apply IHs. cbn [set_flags rest]. lia. }
    destruct (check TRightParen st3); [cbn [pbind]; apply Hk; lia|].
    eapply nf_bind; [apply (params_post False); apply gF|apply params_nf; lia|].
    intros params st4 H4. lt H4. apply Hk; lia.
  - (* p_statement *)
    intros st Hn. cbn [p_statement]. apply nf_peek. intros t r E.
    destruct (at_end st) eqn:Ee; [apply IHes; lia|].
    pose proof (at_end_advance st Ee) as Hadv. lt Hadv.
    destruct (tkind t); try (apply IHes; lia).
    + apply IHb; lia.
    + apply IHif; lia.
    + apply nf_restore. destruct (check _ _); [apply IHru|apply IHrt]; cbn [set_flags rest]; lia.
    + apply nf_restore. apply IHfe; cbn [set_flags rest]; lia.
    + destruct (in_loop _); discriminate.
    + destruct (in_loop _); discriminate.
    + destruct (negb _); [discriminate|]. destruct (_ || _); [discriminate|].
      destruct (match_tok_cases TSoftSemi (advance st)) as [(E2 & H2 & _)|E2]; rewrite E2; [discriminate|].
      nf_expression. intros e st2 H2.
      eapply nf_bind; [apply (end_of_statement_post False); apply gF|apply end_of_statement_nf|].
      intros; discriminate.
    + apply IHim; lia.
  - (* p_expr_stmt *)
    intros st Hn. cbn [p_expr_stmt]. nf_expression. intros e st1 H1.
    destruct (at_end st1); [discriminate|]. destruct (check _ _); [discriminate|].
    nf_cons. intros; discriminate.
  - (* p_block *)
    intros lb acc st Hn. cbn [p_block]. destruct (_ && _).
    + destruct (match_tok_cases TSoftSemi st) as [(E & H1 & _)|E]; rewrite E.
      * lt H1. apply IHb; lia.
      * eapply nf_bind; [apply decl_postF|apply IHd; lia|]. intros s st1 H1. lt H1. apply IHb; lia.
    + nf_cons. intros; discriminate.
  - (* p_if *)
    intros t st Hn. cbn [p_if]. nf_cons. intros _lp st1 H1. lt H1.
    nf_expression. intros c st2 H2. lt H2. nf_cons. intros _rp st3 H3. lt H3.
    eapply nf_bind; [apply stmt_postF|apply IHs; lia|]. intros th st4 H4. lt H4.
    destruct (match_tok_cases TElse st4) as [(E & H5 & _)|E]; rewrite E; [|discriminate].
    lt H5. eapply nf_bind; [apply stmt_postF|apply IHs; lia|]. intros; discriminate.
  - (* p_repeat_times *)
    intros st Hn. cbn [p_repeat_times]. nf_expression. intros n st1 H1. lt H1.
    apply nf_prev. intros ct. nf_cons. intros _t st2 H2. lt H2.
    eapply nf_bind; [apply stmt_postF|apply IHs; lia|]. intros; discriminate.
  - (* p_repeat_until *)
    intros st Hn. cbn [p_repeat_until]. nf_cons. intros ut st1 H1. lt H1.
    nf_cons. intros _lp st2 H2. lt H2. nf_expression. intros c st3 H3. lt H3.
    nf_cons. intros _rp st4 H4. lt H4.
    eapply nf_bind; [apply stmt_postF|apply IHs; lia|]. intros; discriminate.
  - (* p_for_each *)
    intros st Hn. cbn [p_for_each]. nf_cons. intros et st1 H1. lt H1.
    nf_cons. intros item st2 H2. lt H2. nf_cons. intros _in st3 H3. lt H3.
    nf_expression. intros l st4 H4. lt H4. apply nf_prev. intros ltk.
    eapply nf_bind; [apply stmt_postF|apply IHs; lia|]. intros; discriminate.
  - (* p_import *)
    intros st Hn. cbn [p_import].
    assert (Htail : forall (only : option (list token)) st2,
      (do _mod, st3 <- consume TMod err0 st2;
       do name, st4 <- consume TStringLiteral err0 st3;
       do _u, st5 <- end_of_statement st4;
       match lit_string name,
             (match only with Some ts => option_map Some (names_of ts) | None => Some None end) with
       | Some m, Some o => POk (SImport m (tspan name) o) st5
       | _, _ => PPanic PanicLiteral
       end) <> PFuel).
    { intros only st2. nf_cons. intros _mod st3 _. nf_cons. intros name st4 _.
      eapply nf_bind; [apply (end_of_statement_post False); apply gF|apply end_of_statement_nf|].
      intros _u st5 _. destruct (lit_string name); [|discriminate].
      destruct (match only with Some ts => option_map Some (names_of ts) | None => Some None end); discriminate. }
    assert (Hfrom : forall (only : option (list token)) st1,
      (do _from, st2 <- (match only with
                         | Some _ => do t, s <- consume TFrom err0 st1; POk tt s
                         | None => POk tt st1
                         end);
       do _mod, st3 <- consume TMod err0 st2;
       do name, st4 <- consume TStringLiteral err0 st3;
       do _u, st5 <- end_of_statement st4;
       match lit_string name,
             (match only with Some ts => option_map Some (names_of ts) | None => Some None end) with
       | Some m, Some o => POk (SImport m (tspan name) o) st5
       | _, _ => PPanic PanicLiteral
       end) <> PFuel).
    { intros only st1. destruct only as [ts|]; cbn [pbind]; [|exact (Htail None st1)].
      rewrite pbind_assoc. nf_cons. intros t s _. cbn [pbind]. exact (Htail (Some ts) s). }
    destruct (match_tok_cases TLeftBracket st) as [(E & H1 & _)|E]; rewrite E.
    + unfold with_prev at 1. destruct (prevt (advance st)) as [lbr|]; [|discriminate].
      lt H1. rewrite !pbind_assoc.
      eapply nf_bind; [apply (import_names_post False); [apply gF|intros []]|apply import_names_nf; lia|].
      intros names s2 H2. rewrite pbind_assoc. nf_cons. intros _rb s3 _. cbn [pbind]. exact (Hfrom (Some names) s3).
    + destruct (match_tok_cases TStringLiteral st) as [(E2 & H2 & _)|E2]; rewrite E2.
      * unfold with_prev at 1. destruct (prevt (advance st)) as [one|]; [|discriminate].
        cbn [pbind]. exact (Hfrom (Some [one]) (advance st)).
      * cbn [pbind]. exact (Hfrom None st).
Qed.

Lemma sync_after_err a b : step a b -> at_end a = false ->
  (length (rest (synchronize b)) < length (rest a))%nat.
Proof.
  intros Hs Ha. pose proof (step_le _ _ (synchronize_step b)) as Hle.
  destruct Hs as [(pre & E & Hp) _ _ _]. destruct pre as [|p pre].
  - cbn [app] in E. apply at_end_false in Ha as (t & r & Er & Ht).
    rewrite Er in E. rewrite Er. rewrite E. eapply synchronize_progress; eauto.
  - rewrite E. rewrite app_length. cbn [length]. lia.
Qed.

Lemma program_loop_nf inner : forall fuel st stmts errs,
  cursor_ok st -> (length (rest st) <= fuel)%nat -> (15 * length (rest st) + 13 < inner)%nat ->
  program_loop fuel inner st stmts errs <> ParseFuel.
Proof.
  induction fuel as [|fuel IH]; intros st stmts errs Hc Hf Hi.
  { apply shaped_cons in Hc as (t & r & E & _). rewrite E in Hf. cbn in Hf. lia. }
  cbn [program_loop]. destruct (rest st) as [|t0 r0] eqn:Er; [discriminate|]. rewrite <- Er in *.
  destruct (at_end st) eqn:Ee; [destruct errs; discriminate|].
  destruct (match_tok_cases TSoftSemi st) as [(E & H1 & _)|E]; rewrite E.
  { lt H1. apply IH; [eapply rel_cursor; eauto|lia|lia]. }
  pose proof (decl_postF inner st) as Hd.
  destruct (nf_stmt_all inner) as (Hnf & _). specialize (Hnf st Hi).
  destruct (p_declaration inner st) as [s st1|e st1|site|]; cbn [post] in Hd.
  - destruct Hd as [_ H1]. lt H1. apply IH; [eapply rel_cursor; eauto|lia|lia].
  - pose proof (sync_after_err _ _ Hd Ee).
    apply IH; [|lia|lia]. eapply step_cursor; [|exact Hc].
    eapply step_trans; [exact Hd|apply synchronize_step].
  - discriminate.
  - congruence.
Qed.

Lemma parse_fuel_enough : forall ts, shaped ts -> parse_tokens ts <> ParseFuel.
Proof.
  intros ts Hs. unfold parse_tokens. apply program_loop_nf; cbn [rest]; [exact Hs|lia|unfold fuel_for; lia].
Qed.

Lemma parse_result : forall ts, shaped ts ->
  (exists p, parse_tokens ts = ParseOk p) \/ (exists es, es <> [] /\ parse_tokens ts = ParseErr es).
Proof.
  intros ts Hs. destruct (parse_tokens ts) as [p|es|site|] eqn:E.
  - left. eauto.
  - right. exists es. split; [eapply rejection_has_diagnostic; eauto|reflexivity].
  - exfalso. eapply parse_no_panic; eauto.
  - exfalso. eapply parse_fuel_enough; eauto.
Qed.

Lemma front_end_total : forall a s,
  match lex_gen a s with
  | LexOk ts => (exists p, parse_tokens ts = ParseOk p) \/ (exists es, es <> [] /\ parse_tokens ts = ParseErr es)
  | LexErr es => es <> []
  | LexFuel => False
  end.
Proof.
  intros a s. destruct (lex_total a s) as [[ts E]|[es [Hne E]]]; rewrite E.
  - apply parse_result. eapply lex_output_shaped; eauto.
  - exact Hne.
Qed.
