(** LabelSpec: which range a construct labels a runtime error with (the second sentence of C11):
    the operator for arithmetic and type errors, the name for an undefined variable or procedure,
    the bracketed index for index errors, the argument list or the offending argument for call
    errors, the count or collection expression for loop-header errors, the module name (or the
    requested procedure name) for import errors.  No proofs here. *)
From Aplang Require Import Base FloatX Token Ast Tables Value EvalImpl GrammarSpec.
Open Scope N_scope.

Inductive node := NE (e : expr) | NS (s : stmt).

(** sub-nodes *)
Fixpoint sub_expr (n : node) (e : expr) : Prop :=
  n = NE e \/
  match e with
  | EGroup x | EUn _ _ x | EAssign _ _ _ x => sub_expr n x
  | EBin _ _ l r | ELog _ _ l r | EAccess _ _ _ l r => sub_expr n l \/ sub_expr n r
  | ECall _ _ _ _ _ args => (fix any (l : list expr) : Prop := match l with [] => False | x :: r => sub_expr n x \/ any r end) args
  | EList _ _ items => (fix any (l : list expr) : Prop := match l with [] => False | x :: r => sub_expr n x \/ any r end) items
  | ESet _ _ _ _ l i v => sub_expr n l \/ sub_expr n i \/ sub_expr n v
  | _ => False
  end.

Fixpoint sub_stmt (n : node) (s : stmt) : Prop :=
  n = NS s \/
  match s with
  | SExpr e => sub_expr n e
  | SIf c t e => sub_expr n c \/ sub_stmt n t \/ match e with Some x => sub_stmt n x | None => False end
  | SRepeatTimes _ c b => sub_expr n c \/ sub_stmt n b
  | SRepeatUntil c b => sub_expr n c \/ sub_stmt n b
  | SForEach _ _ _ l b => sub_expr n l \/ sub_stmt n b
  | SProc _ _ _ b => sub_stmt n b
  | SBlock ss => (fix any (l : list stmt) : Prop := match l with [] => False | x :: r => sub_stmt n x \/ any r end) ss
  | SReturn (Some e) => sub_expr n e
  | _ => False
  end.

Definition sub_prog (n : node) (p : list stmt) : Prop := exists s, In s p /\ sub_stmt n s.

Definition operator_kind (k : rt_kind) : Prop :=
  k = DivisionByZero \/ k = ModuloByZero \/ k = Incomparable \/ k = InvalidUnaryOp.
Definition index_kind (k : rt_kind) : Prop := k = InvalidListIndex \/ k = InvalidIndex.
Definition call_kind (k : rt_kind) : Prop := k = InvalidProcedure \/ k = IncorrectArgs.
Definition import_kind (k : rt_kind) : Prop :=
  k = NoUserModules \/ k = ModuleNotFound \/ k = ModuleFileMissing \/ k = ModuleUnreadable \/ k = ModuleInvalid \/
  k = InvalidFunction.

(** the node itself (not one of its sub-nodes) ends the run with error class [k] labelled [sp] *)
Definition own_label (n : node) (k : rt_kind) (sp : span) : Prop :=
  match n with
  | NE (EBin _ tok _ _) => operator_kind k /\ sp = tok                       (* the operator *)
  | NE (EUn _ tok _) => operator_kind k /\ sp = tok
  | NE (EVar _ tok) => k = InvalidVariable /\ sp = tok                       (* the name *)
  | NE (ECall _ tok lp rp spans _) =>
    (k = InvalidProcedure /\ sp = tok) \/                                    (* the name *)
    (k = IncorrectArgs /\ sp = interior lp rp) \/                            (* the argument list *)
    (~ call_kind k /\ In sp spans)                                           (* the offending argument *)
  | NE (EAccess lt lb rb _ _) | NE (ESet lt lb rb _ _ _ _) =>
    (index_kind k /\ sp = interior lb rb) \/                                 (* the bracketed index *)
    (k = InvalidType /\ sp = lt)                                             (* the thing indexed *)
  | NS (SRepeatTimes ctok _ _) => k = InvalidCount /\ sp = ctok              (* the count expression *)
  | NS (SForEach _ _ ltok _ _) => k = InvalidIterator /\ sp = ltok           (* the collection expression *)
  | NS (SImport _ mtok only) =>
    import_kind k /\ (sp = mtok \/ match only with Some l => In sp (map snd l) | None => False end)
  | _ => False
  end.

(** [seg] is a contiguous part of [ts] from which the node was built *)
Definition node_segment (ts : list token) (n : node) (seg : list token) : Prop :=
  (exists pre post, ts = pre ++ seg ++ post) /\
  match n with NE e => DExpr seg e | NS s => DStmt seg s end.

(** the range [sp] lies between the start of the first and the end of the last token of [seg] *)
Definition within (seg : list token) (sp : span) : Prop :=
  exists first last rest pre, seg = first :: rest /\ seg = pre ++ [last] /\
    toff first <= fst sp /\ fst sp + snd sp <= toff last + tlen last.
