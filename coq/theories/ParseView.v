(** ParseView: the parser model (ParseImpl) looks only at the view of each token ([tok_view]: kind,
    literal, name of an identifier).  Two token lists with the same views give parse results that
    differ only in byte ranges ([parse_sim]).  Used by Props/C06c.v. *)
From Aplang Require Import Base FloatX Token Ast ParseImpl Layout Erase Meaning.
From Aplang.Gen Require Import Generated.
Open Scope N_scope.

(** * Relations *)

Definition tsim (a b : token) : Prop := tok_view a = tok_view b.
Definition vsim (l1 l2 : list token) : Prop := map tok_view l1 = map tok_view l2.
Definition osim (a b : option token) : Prop :=
  match a, b with
  | None, None => True
  | Some x, Some y => tsim x y
  | _, _ => False
  end.

Definition psim (s1 s2 : pstate) : Prop :=
  vsim (rest s1) (rest s2) /\ osim (prevt s1) (prevt s2) /\ in_fn s1 = in_fn s2 /\ in_loop s1 = in_loop s2.

Definition rsim {A} (R : A -> A -> Prop) (r1 r2 : pres A) : Prop :=
  match r1, r2 with
  | POk x1 s1, POk x2 s2 => R x1 x2 /\ psim s1 s2
  | PErr e1 s1, PErr e2 s2 => pe_code e1 = pe_code e2 /\ psim s1 s2
  | PPanic a, PPanic b => a = b
  | PFuel, PFuel => True
  | _, _ => False
  end.

Definition Re (e1 e2 : expr) : Prop := erase e1 = erase e2.
Definition Rs (s1 s2 : stmt) : Prop := erase_stmt s1 = erase_stmt s2.
Definition Ri (p1 p2 : list expr * list token) : Prop :=
  map erase (fst p1) = map erase (fst p2) /\ length (snd p1) = length (snd p2).
(* the token returned by [consume k] *)
Definition ksim (k : tk) (a b : token) : Prop := tsim a b /\ (k <> TEof -> tkind a = k).
Definition Rany {A} (a b : A) : Prop := True.

(** * Tokens *)

Lemma tk_eqb_refl k : tk_eqb k k = true.
Proof. apply tk_eqb_eq. reflexivity. Qed.

Lemma tsim_kind a b : tsim a b -> tkind a = tkind b.
Proof. unfold tsim, tok_view. intros H. injection H as H1 H2 H3. exact H1. Qed.

Lemma tsim_lit a b : tsim a b -> tlit a = tlit b.
Proof. unfold tsim, tok_view. intros H. injection H as H1 H2 H3. exact H2. Qed.

Lemma tsim_lex a b : tsim a b -> tkind a = TIdentifier -> tlex a = tlex b.
Proof.
  unfold tsim, tok_view. intros H K. injection H as H1 H2 H3.
  rewrite <- H1, K, tk_eqb_refl in H3. exact H3.
Qed.

Lemma tsim_lit_string a b : tsim a b -> lit_string a = lit_string b.
Proof. intros H. unfold lit_string. rewrite (tsim_lit _ _ H). reflexivity. Qed.

Lemma vsim_length l1 l2 : vsim l1 l2 -> length l1 = length l2.
Proof. unfold vsim. intros H. rewrite <- (map_length tok_view l1), H. apply map_length. Qed.

Lemma vsim_inv l1 l2 : vsim l1 l2 ->
  (l1 = [] /\ l2 = []) \/
  (exists t1 r1 t2 r2, l1 = t1 :: r1 /\ l2 = t2 :: r2 /\ tsim t1 t2 /\ vsim r1 r2).
Proof.
  unfold vsim. destruct l1 as [|t1 r1], l2 as [|t2 r2]; cbn [map]; intros H; try discriminate.
  - left. split; reflexivity.
  - right. exists t1, r1, t2, r2. split; [reflexivity|]. split; [reflexivity|]. split.
    + exact (f_equal (hd (tok_view t1)) H).
    + exact (f_equal (@tl _) H).
Qed.

Lemma vsim_cons t1 t2 r1 r2 : tsim t1 t2 -> vsim r1 r2 -> vsim (t1 :: r1) (t2 :: r2).
Proof. unfold tsim, vsim. intros H1 H2. cbn [map]. rewrite H1, H2. reflexivity. Qed.

Lemma vsim_rev l1 l2 : vsim l1 l2 -> vsim (rev l1) (rev l2).
Proof. unfold vsim. intros H. rewrite !map_rev, H. reflexivity. Qed.

(** * Cursor primitives *)

Lemma psim_inv s1 s2 : psim s1 s2 ->
  (rest s1 = [] /\ rest s2 = []) \/
  (exists t1 r1 t2 r2, rest s1 = t1 :: r1 /\ rest s2 = t2 :: r2 /\ tsim t1 t2 /\ vsim r1 r2).
Proof. intros (H & _). apply vsim_inv. exact H. Qed.

Lemma peek_kind_sim s1 s2 : psim s1 s2 -> peek_kind s1 = peek_kind s2.
Proof.
  intros H. unfold peek_kind.
  destruct (psim_inv _ _ H) as [(E1 & E2)|(t1 & r1 & t2 & r2 & E1 & E2 & Ht & Hr)]; rewrite E1, E2.
  - reflexivity.
  - rewrite (tsim_kind _ _ Ht). reflexivity.
Qed.

Lemma at_end_sim s1 s2 : psim s1 s2 -> at_end s1 = at_end s2.
Proof.
  intros H. unfold at_end.
  destruct (psim_inv _ _ H) as [(E1 & E2)|(t1 & r1 & t2 & r2 & E1 & E2 & Ht & Hr)]; rewrite E1, E2.
  - reflexivity.
  - rewrite (tsim_kind _ _ Ht). reflexivity.
Qed.

Lemma check_sim k s1 s2 : psim s1 s2 -> check k s1 = check k s2.
Proof.
  intros H. unfold check.
  destruct (psim_inv _ _ H) as [(E1 & E2)|(t1 & r1 & t2 & r2 & E1 & E2 & Ht & Hr)]; rewrite E1, E2.
  - reflexivity.
  - rewrite (tsim_kind _ _ Ht). reflexivity.
Qed.

Lemma advance_sim s1 s2 : psim s1 s2 -> psim (advance s1) (advance s2).
Proof.
  intros H. unfold advance.
  destruct (psim_inv _ _ H) as [(E1 & E2)|(t1 & r1 & t2 & r2 & E1 & E2 & Ht & Hr)]; rewrite E1, E2.
  - exact H.
  - rewrite (tsim_kind _ _ Ht). destruct (tk_eqb (tkind t2) TEof); [exact H|].
    destruct H as (_ & _ & Hf & Hl). unfold psim. simpl. auto.
Qed.

Lemma set_flags_sim s1 s2 a b : psim s1 s2 -> psim (set_flags s1 a b) (set_flags s2 a b).
Proof. intros (H1 & H2 & _ & _). unfold psim, set_flags. simpl. auto. Qed.

Lemma restore_sim {A} (R : A -> A -> Prop) a b r1 r2 : rsim R r1 r2 -> rsim R (restore a b r1) (restore a b r2).
Proof.
  destruct r1, r2; simpl; try contradiction; auto; intros (H1 & H2); split; auto using set_flags_sim.
Qed.

Lemma match_tok_sim k s1 s2 : psim s1 s2 ->
  exists b s1' s2', match_tok k s1 = (b, s1') /\ match_tok k s2 = (b, s2') /\ psim s1' s2'.
Proof.
  intros H. unfold match_tok. rewrite (check_sim k _ _ H). destruct (check k s2).
  - exists true, (advance s1), (advance s2). auto using advance_sim.
  - exists false, s1, s2. auto.
Qed.

Lemma match_toks_sim ks s1 s2 : psim s1 s2 ->
  exists b s1' s2', match_toks ks s1 = (b, s1') /\ match_toks ks s2 = (b, s2') /\ psim s1' s2'.
Proof.
  intros H. induction ks as [|k ks IH]; cbn [match_toks].
  - exists false, s1, s2. auto.
  - rewrite (check_sim k _ _ H). destruct (check k s2); [|exact IH].
    exists true, (advance s1), (advance s2). auto using advance_sim.
Qed.

Lemma rsim_bind {A B} (R : A -> A -> Prop) (Q : B -> B -> Prop) m1 m2 k1 k2 :
  rsim R m1 m2 ->
  (forall x1 x2 s1 s2, R x1 x2 -> psim s1 s2 -> rsim Q (k1 x1 s1) (k2 x2 s2)) ->
  rsim Q (pbind m1 k1) (pbind m2 k2).
Proof.
  intros H K. destruct m1, m2; simpl in *; try contradiction; auto.
  destruct H as (H1 & H2). apply K; assumption.
Qed.

Lemma rsim_mono {A} (R R' : A -> A -> Prop) r1 r2 :
  (forall x y, R x y -> R' x y) -> rsim R r1 r2 -> rsim R' r1 r2.
Proof. intros K. destruct r1, r2; simpl; auto. intros (H1 & H2). auto. Qed.

Lemma rsim_with_peek {A} (Q : A -> A -> Prop) s1 s2 k1 k2 :
  psim s1 s2 -> (forall t1 t2, tsim t1 t2 -> rsim Q (k1 t1) (k2 t2)) ->
  rsim Q (with_peek s1 k1) (with_peek s2 k2).
Proof.
  intros H K. unfold with_peek.
  destruct (psim_inv _ _ H) as [(E1 & E2)|(t1 & r1 & t2 & r2 & E1 & E2 & Ht & Hr)]; rewrite E1, E2.
  - reflexivity.
  - apply K. exact Ht.
Qed.

Lemma rsim_with_prev {A} (Q : A -> A -> Prop) s1 s2 k1 k2 :
  psim s1 s2 -> (forall t1 t2, tsim t1 t2 -> rsim Q (k1 t1) (k2 t2)) ->
  rsim Q (with_prev s1 k1) (with_prev s2 k2).
Proof.
  intros (_ & H & _) K. unfold with_prev.
  destruct (prevt s1) as [p1|], (prevt s2) as [p2|]; simpl in H; try contradiction.
  - apply K. exact H.
  - reflexivity.
Qed.

Lemma consume_sim k rep1 rep2 s1 s2 :
  psim s1 s2 -> (forall t1 t2, pe_code (rep1 t1) = pe_code (rep2 t2)) ->
  rsim (ksim k) (consume k rep1 s1) (consume k rep2 s2).
Proof.
  intros H K. unfold consume, with_peek.
  destruct (psim_inv _ _ H) as [(E1 & E2)|(t1 & r1 & t2 & r2 & E1 & E2 & Ht & Hr)]; rewrite E1, E2.
  - reflexivity.
  - rewrite <- (tsim_kind _ _ Ht). destruct (tk_eqb (tkind t1) k) eqn:Ek.
    + apply tk_eqb_eq in Ek.
      destruct (tk_eqb k TEof) eqn:Ee.
      * apply rsim_with_prev; [apply advance_sim; exact H|]. intros p1 p2 Hp. simpl.
        split; [|apply advance_sim; exact H]. split; [exact Hp|].
        apply tk_eqb_eq in Ee. intros C. contradiction.
      * pose proof (advance_sim _ _ H) as Ha. unfold advance in Ha |- *.
        rewrite E1, E2 in Ha |- *. rewrite <- (tsim_kind _ _ Ht), Ek, Ee in Ha |- *.
        unfold with_prev. simpl. split; [|exact Ha]. split; [exact Ht|]. intros _. exact Ek.
    + simpl. split; [apply K|exact H].
Qed.

Lemma end_of_statement_sim s1 s2 : psim s1 s2 -> rsim (@Rany unit) (end_of_statement s1) (end_of_statement s2).
Proof.
  intros H. unfold end_of_statement.
  rewrite (at_end_sim _ _ H), (check_sim _ _ _ H).
  destruct (at_end s2 || check TRightBrace s2).
  - simpl. split; [exact I|exact H].
  - eapply rsim_bind; [apply consume_sim; [exact H|reflexivity]|].
    intros x1 x2 a1 a2 _ Ha. simpl. split; [exact I|exact Ha].
Qed.

(** * Unfolding lemmas: expressions *)

Fixpoint windows (l : list token) : list span :=
  match l with
  | a :: ((b :: _) as r) => span_between (tspan a) (tspan b) :: windows r
  | _ => []
  end.

Lemma windows_length a l : length (windows (a :: l)) = length l.
Proof.
  revert a. induction l as [|b l IH]; intros a; [reflexivity|].
  change (windows (a :: b :: l)) with (span_between (tspan a) (tspan b) :: windows (b :: l)).
  cbn [length]. rewrite IH. reflexivity.
Qed.

Lemma map_const_length {A B C} (c : C) (l1 : list A) (l2 : list B) :
  length l1 = length l2 -> map (fun _ => c) l1 = map (fun _ => c) l2.
Proof.
  revert l2. induction l1 as [|a l1 IH]; intros [|b l2] H; simpl in *; try discriminate; [reflexivity|].
  f_equal. apply IH. congruence.
Qed.

Lemma p_level_S f l st : p_level (S f) l st =
  match l with
  | LvAssignment =>
    do e, st1 <- p_level f assignment_first st;
    with_prev st1 (fun expr_token =>
    match match_tok TArrow st1 with
    | (true, st2) =>
      with_prev st2 (fun arrow =>
      do v, st3 <- p_level f assignment_value st2;
      match e with
      | EVar name tok => POk (EAssign name tok (tspan arrow) v) st3
      | EAccess lt lb rb lst key => POk (ESet lt lb rb (tspan arrow) lst key v) st3
      | _ => PErr (mkPErr PC_invalid_assignment_target [tspan arrow; tspan expr_token]) st3
      end)
    | (false, _) => POk e st1
    end)
  | LvUnary =>
    match match_toks unary_ops st with
    | (true, st1) =>
      with_prev st1 (fun tok =>
      do r, st2 <- p_level f unary_operand st1;
      match assoc_tk (tkind tok) unop_of_token with
      | Some op => POk (EUn op (tspan tok) r) st2
      | None => fail st2
      end)
    | (false, _) => p_level f unary_else st
    end
  | LvAccess =>
    do e, st1 <- p_level f access_first st;
    with_prev st1 (fun expr_token => p_access f e (tspan expr_token) st1)
  | LvPrimary => p_primary f st
  | _ =>
    match rung_of l with
    | None => fail st
    | Some rg =>
      do e, st1 <- p_level f (r_first rg) st;
      p_loop f rg e st1
    end
  end.
Proof. reflexivity. Qed.

Lemma p_loop_S f rg e st : p_loop (S f) rg e st =
  match match_toks (r_ops rg) st with
  | (true, st1) =>
    with_prev st1 (fun tok =>
    do r, st2 <- p_level f (r_loop rg) st1;
    match r_mk rg with
    | MkLog op => p_loop f rg (ELog op (tspan tok) e r) st2
    | MkBin =>
      match assoc_tk (tkind tok) binop_of_token with
      | Some op => p_loop f rg (EBin op (tspan tok) e r) st2
      | None => fail st2
      end
    end)
  | (false, _) => POk e st
  end.
Proof. reflexivity. Qed.

Lemma p_access_S f e sp st : p_access (S f) e sp st =
  match match_tok TLeftBracket st with
  | (true, st1) =>
    with_prev st1 (fun lb =>
    do idx, st2 <- p_level f expression_entry st1;
    do rb, st3 <- consume TRightBracket (fun t => mkPErr PC_missing_rbracket [tspan t]) st2;
    p_access f (EAccess sp (tspan lb) (tspan rb) e idx) sp st3)
  | (false, _) => POk e st
  end.
Proof. reflexivity. Qed.

Lemma p_items_S f limit n st : p_items (S f) limit n st =
  if (match limit with Some m => m <=? n | None => false end) then fail st else
  do e, st1 <- p_level f expression_entry st;
  with_peek st1 (fun after =>
  match match_tok TComma st1 with
  | (true, st2) =>
    do more, st3 <- p_items f limit (n + 1) st2;
    POk (e :: fst more, after :: snd more) st3
  | (false, _) => POk ([e], [after]) st1
  end).
Proof. reflexivity. Qed.

Lemma p_primary_S f st : p_primary (S f) st =
  with_peek st (fun t =>
  if at_end st then PErr (mkPErr PC_none [tspan t]) st else
  match tkind t with
  | TTrue => POk ETrue (advance st)
  | TFalse => POk EFalse (advance st)
  | TNull => POk ENull (advance st)
  | TStringLiteral => match tlit t with LStr s => POk (EStr s) (advance st) | _ => PPanic PanicLiteral end
  | TNumber => match tlit t with LNum x => POk (ENum x) (advance st) | _ => PPanic PanicLiteral end
  | TIdentifier =>
    let st1 := advance st in
    match match_tok TLeftParen st1 with
    | (true, st2) =>
      with_prev st2 (fun lp =>
      do items, st3 <- (if check TRightParen st2 then POk ([], []) st2 else p_items f (Some 255) 0 st2);
      do rp, st4 <- consume TRightParen (fun x => mkPErr PC_missing_rp [tspan x]) st3;
      POk (ECall (tlex t) (tspan t) (tspan lp) (tspan rp) (windows (lp :: snd items)) (fst items)) st4)
    | (false, _) => POk (EVar (tlex t) (tspan t)) st1
    end
  | TLeftParen =>
    let st1 := advance st in
    do e, st2 <- p_level f expression_entry st1;
    do rp, st3 <- consume TRightParen (fun x => mkPErr PC_missing_lp [tspan x]) st2;
    POk (EGroup e) st3
  | TLeftBracket =>
    let st1 := advance st in
    do items, st2 <- (if check TRightBracket st1 then POk ([], []) st1 else p_items f None 0 st1);
    do rb, st3 <- consume TRightBracket (fun x => mkPErr PC_missing_rb [tspan x]) st2;
    POk (EList (tspan t) (tspan rb) (fst items)) st3
  | _ => PErr (mkPErr PC_none [tspan t]) st
  end).
Proof. reflexivity. Qed.

(** * The expression parser respects views *)

Ltac mt H :=
  match goal with
  | |- context [match_tok ?k _] =>
    let b := fresh "b" in let sa := fresh "sa" in let sb := fresh "sb" in
    let Ea := fresh "Ea" in let Eb := fresh "Eb" in let Hs := fresh "Hs" in
    destruct (match_tok_sim k _ _ H) as (b & sa & sb & Ea & Eb & Hs); rewrite Ea, Eb; destruct b
  end.
Ltac mts H :=
  match goal with
  | |- context [match_toks ?k _] =>
    let b := fresh "b" in let sa := fresh "sa" in let sb := fresh "sb" in
    let Ea := fresh "Ea" in let Eb := fresh "Eb" in let Hs := fresh "Hs" in
    destruct (match_toks_sim k _ _ H) as (b & sa & sb & Ea & Eb & Hs); rewrite Ea, Eb; destruct b
  end.

Lemma rsim_fail {A} (Q : A -> A -> Prop) s1 s2 : psim s1 s2 -> rsim Q (fail s1) (fail s2).
Proof. intros H. simpl. split; [reflexivity|exact H]. Qed.

Lemma assign_case e1 e2 v1 v2 ar1 ar2 t1 t2 s1 s2 :
  Re e1 e2 -> Re v1 v2 -> psim s1 s2 ->
  rsim Re
    (match e1 with
     | EVar name tok => POk (EAssign name tok (tspan ar1) v1) s1
     | EAccess lt lb rb lst key => POk (ESet lt lb rb (tspan ar1) lst key v1) s1
     | _ => PErr (mkPErr PC_invalid_assignment_target [tspan ar1; tspan t1]) s1
     end)
    (match e2 with
     | EVar name tok => POk (EAssign name tok (tspan ar2) v2) s2
     | EAccess lt lb rb lst key => POk (ESet lt lb rb (tspan ar2) lst key v2) s2
     | _ => PErr (mkPErr PC_invalid_assignment_target [tspan ar2; tspan t2]) s2
     end).
Proof.
  unfold Re. intros He Hv Hs.
  destruct e1, e2; cbn [erase] in He; try discriminate He;
    cbn [rsim pe_code]; (split; [|exact Hs]); try reflexivity; cbn [erase]; congruence.
Qed.

Section ExprStep.
  Variable f : nat.
  Hypothesis IHlevel : forall l s1 s2, psim s1 s2 -> rsim Re (p_level f l s1) (p_level f l s2).
  Hypothesis IHloop : forall rg e1 e2 s1 s2, Re e1 e2 -> psim s1 s2 ->
    rsim Re (p_loop f rg e1 s1) (p_loop f rg e2 s2).
  Hypothesis IHaccess : forall e1 e2 sp1 sp2 s1 s2, Re e1 e2 -> psim s1 s2 ->
    rsim Re (p_access f e1 sp1 s1) (p_access f e2 sp2 s2).
  Hypothesis IHitems : forall lim n s1 s2, psim s1 s2 -> rsim Ri (p_items f lim n s1) (p_items f lim n s2).
  Hypothesis IHprimary : forall s1 s2, psim s1 s2 -> rsim Re (p_primary f s1) (p_primary f s2).

  Lemma level_step l s1 s2 : psim s1 s2 -> rsim Re (p_level (S f) l s1) (p_level (S f) l s2).
  Proof.
    intros H. rewrite !p_level_S.
    assert (Hrung : rsim Re
      match rung_of l with
      | Some rg => do e, st1 <- p_level f (r_first rg) s1; p_loop f rg e st1
      | None => fail s1
      end
      match rung_of l with
      | Some rg => do e, st1 <- p_level f (r_first rg) s2; p_loop f rg e st1
      | None => fail s2
      end).
    { destruct (rung_of l) as [rg|]; [|apply rsim_fail; exact H].
      eapply rsim_bind; [apply IHlevel; exact H|]. intros e1 e2 a1 a2 He Ha.
      apply IHloop; assumption. }
    destruct l; try exact Hrung; clear Hrung.
    - (* assignment *)
      eapply rsim_bind; [apply IHlevel; exact H|]. intros e1 e2 a1 a2 He Ha.
      apply rsim_with_prev; [exact Ha|]. intros t1 t2 Ht.
      mt Ha.
      + apply rsim_with_prev; [exact Hs|]. intros ar1 ar2 Har.
        eapply rsim_bind; [apply IHlevel; exact Hs|]. intros v1 v2 c1 c2 Hv Hc.
        apply assign_case; assumption.
      + simpl. split; assumption.
    - (* unary *)
      mts H.
      + apply rsim_with_prev; [exact Hs|]. intros t1 t2 Ht.
        eapply rsim_bind; [apply IHlevel; exact Hs|]. intros v1 v2 c1 c2 Hv Hc.
        rewrite (tsim_kind _ _ Ht). destruct (assoc_tk (tkind t2) unop_of_token) as [op|].
        * simpl. split; [|exact Hc]. unfold Re in *. cbn [erase]. congruence.
        * apply rsim_fail; exact Hc.
      + apply IHlevel; exact H.
    - (* access *)
      eapply rsim_bind; [apply IHlevel; exact H|]. intros e1 e2 a1 a2 He Ha.
      apply rsim_with_prev; [exact Ha|]. intros t1 t2 Ht.
      apply IHaccess; assumption.
    - apply IHprimary; exact H.
  Qed.

  Lemma loop_step rg e1 e2 s1 s2 : Re e1 e2 -> psim s1 s2 ->
    rsim Re (p_loop (S f) rg e1 s1) (p_loop (S f) rg e2 s2).
  Proof.
    intros He H. rewrite !p_loop_S.
    mts H.
    - apply rsim_with_prev; [exact Hs|]. intros t1 t2 Ht.
      eapply rsim_bind; [apply IHlevel; exact Hs|]. intros v1 v2 c1 c2 Hv Hc.
      destruct (r_mk rg) as [op|].
      + apply IHloop; [|exact Hc]. unfold Re in *. cbn [erase]. congruence.
      + rewrite (tsim_kind _ _ Ht). destruct (assoc_tk (tkind t2) binop_of_token) as [op|].
        * apply IHloop; [|exact Hc]. unfold Re in *. cbn [erase]. congruence.
        * apply rsim_fail; exact Hc.
    - simpl. split; assumption.
  Qed.

  Lemma access_step e1 e2 sp1 sp2 s1 s2 : Re e1 e2 -> psim s1 s2 ->
    rsim Re (p_access (S f) e1 sp1 s1) (p_access (S f) e2 sp2 s2).
  Proof.
    intros He H. rewrite !p_access_S.
    mt H.
    - apply rsim_with_prev; [exact Hs|]. intros t1 t2 Ht.
      eapply rsim_bind; [apply IHlevel; exact Hs|]. intros v1 v2 c1 c2 Hv Hc.
      eapply rsim_bind; [apply consume_sim; [exact Hc|reflexivity]|]. intros rb1 rb2 d1 d2 Hrb Hd.
      apply IHaccess; [|exact Hd]. unfold Re in *. cbn [erase]. congruence.
    - simpl. split; assumption.
  Qed.

  Lemma items_step lim n s1 s2 : psim s1 s2 -> rsim Ri (p_items (S f) lim n s1) (p_items (S f) lim n s2).
  Proof.
    intros H. rewrite !p_items_S.
    destruct (match lim with Some m => m <=? n | None => false end); [apply rsim_fail; exact H|].
    eapply rsim_bind; [apply IHlevel; exact H|]. intros e1 e2 a1 a2 He Ha.
    apply rsim_with_peek; [exact Ha|]. intros t1 t2 Ht.
    mt Ha.
    - eapply rsim_bind; [apply IHitems; exact Hs|]. intros m1 m2 c1 c2 (Hm1 & Hm2) Hc.
      simpl. split; [|exact Hc]. unfold Ri, Re in *. cbn [fst snd map length]. split; congruence.
    - simpl. split; [|exact Ha]. unfold Ri, Re in *. cbn [fst snd map length]. split; congruence.
  Qed.

  Lemma items_opt_sim k lim s1 s2 : psim s1 s2 ->
    rsim Ri (if check k s1 then POk ([], []) s1 else p_items f lim 0 s1)
            (if check k s2 then POk ([], []) s2 else p_items f lim 0 s2).
  Proof.
    intros H. rewrite (check_sim k _ _ H). destruct (check k s2).
    - simpl. split; [|exact H]. split; reflexivity.
    - apply IHitems; exact H.
  Qed.

  Lemma primary_step s1 s2 : psim s1 s2 -> rsim Re (p_primary (S f) s1) (p_primary (S f) s2).
  Proof.
    intros H. rewrite !p_primary_S.
    apply rsim_with_peek; [exact H|]. intros t1 t2 Ht.
    rewrite (at_end_sim _ _ H). destruct (at_end s2); [simpl; split; [reflexivity|exact H]|].
    pose proof (advance_sim _ _ H) as Hadv.
    rewrite <- (tsim_kind _ _ Ht), <- (tsim_lit _ _ Ht).
    destruct (tkind t1) eqn:K; try (simpl; split; [reflexivity|assumption]).
    - (* ( *)
      cbv zeta.
      eapply rsim_bind; [apply IHlevel; exact Hadv|]. intros e1 e2 a1 a2 He Ha.
      eapply rsim_bind; [apply consume_sim; [exact Ha|reflexivity]|]. intros rp1 rp2 d1 d2 Hrp Hd.
      simpl. split; [|exact Hd]. unfold Re in *. cbn [erase]. congruence.
    - (* [ *)
      cbv zeta.
      eapply rsim_bind; [apply items_opt_sim; exact Hadv|]. intros i1 i2 a1 a2 (Hi1 & Hi2) Ha.
      eapply rsim_bind; [apply consume_sim; [exact Ha|reflexivity]|]. intros rp1 rp2 d1 d2 Hrp Hd.
      simpl. split; [|exact Hd]. unfold Re. cbn [erase]. congruence.
    - (* identifier *)
      cbv zeta. pose proof (tsim_lex _ _ Ht K) as Hlex.
      mt Hadv.
      + apply rsim_with_prev; [exact Hs|]. intros lp1 lp2 Hlp.
        eapply rsim_bind; [apply items_opt_sim; exact Hs|]. intros i1 i2 a1 a2 (Hi1 & Hi2) Ha.
        eapply rsim_bind; [apply consume_sim; [exact Ha|reflexivity]|]. intros rp1 rp2 d1 d2 Hrp Hd.
        split; [|exact Hd]. unfold Re. cbn [erase]. rewrite Hlex, Hi1.
        rewrite (map_const_length z0 (windows (lp1 :: snd i1)) (windows (lp2 :: snd i2))); [reflexivity|].
        rewrite !windows_length. exact Hi2.
      + simpl. split; [|exact Hadv]. unfold Re. cbn [erase]. rewrite Hlex. reflexivity.
    - (* number *)
      destruct (tlit t1); simpl; try reflexivity; (split; [reflexivity|exact Hadv]).
    - (* string *)
      destruct (tlit t1); simpl; try reflexivity; (split; [reflexivity|exact Hadv]).
  Qed.
End ExprStep.

Lemma expr_sim : forall f,
  (forall l s1 s2, psim s1 s2 -> rsim Re (p_level f l s1) (p_level f l s2)) /\
  (forall rg e1 e2 s1 s2, Re e1 e2 -> psim s1 s2 -> rsim Re (p_loop f rg e1 s1) (p_loop f rg e2 s2)) /\
  (forall e1 e2 sp1 sp2 s1 s2, Re e1 e2 -> psim s1 s2 -> rsim Re (p_access f e1 sp1 s1) (p_access f e2 sp2 s2)) /\
  (forall lim n s1 s2, psim s1 s2 -> rsim Ri (p_items f lim n s1) (p_items f lim n s2)) /\
  (forall s1 s2, psim s1 s2 -> rsim Re (p_primary f s1) (p_primary f s2)).
Proof.
  induction f as [|f (I1 & I2 & I3 & I4 & I5)].
  - repeat split; intros; exact I.
  - split; [|split; [|split; [|split]]].
    + apply level_step; assumption.
    + apply loop_step; assumption.
    + apply access_step; assumption.
    + apply items_step; assumption.
    + apply primary_step; assumption.
Qed.

Lemma expression_sim f s1 s2 : psim s1 s2 -> rsim Re (p_expression f s1) (p_expression f s2).
Proof. intros H. unfold p_expression. apply (proj1 (expr_sim f)). exact H. Qed.

(** * Formal lists of procedures, import names *)

Lemma psim_fn s1 s2 : psim s1 s2 -> in_fn s1 = in_fn s2.
Proof. intros (_ & _ & H & _). exact H. Qed.
Lemma psim_loop s1 s2 : psim s1 s2 -> in_loop s1 = in_loop s2.
Proof. intros (_ & _ & _ & H). exact H. Qed.

Lemma ksim_ident a b : ksim TIdentifier a b -> tlex a = tlex b.
Proof. intros (H & K). apply tsim_lex; [exact H|]. apply K. discriminate. Qed.

Lemma p_params_S f n st : p_params (S f) n st =
  if 255 <=? n then fail st else
  do t, st1 <- consume TIdentifier err0 st;
  match match_tok TComma st1 with
  | (true, st2) => do more, st3 <- p_params f (n + 1) st2; POk (tlex t :: more) st3
  | (false, _) => POk [tlex t] st1
  end.
Proof. reflexivity. Qed.

Lemma params_sim : forall f n s1 s2, psim s1 s2 -> rsim eq (p_params f n s1) (p_params f n s2).
Proof.
  induction f as [|f IH]; intros n s1 s2 H; [exact I|].
  rewrite !p_params_S. destruct (255 <=? n); [apply rsim_fail; exact H|].
  eapply rsim_bind; [apply consume_sim; [exact H|reflexivity]|]. intros t1 t2 a1 a2 Ht Ha.
  pose proof (ksim_ident _ _ Ht) as Hlex.
  mt Ha.
  - eapply rsim_bind; [apply IH; exact Hs|]. intros m1 m2 c1 c2 Hm Hc.
    simpl. split; [|exact Hc]. congruence.
  - simpl. split; [|exact Ha]. congruence.
Qed.

Lemma p_import_names_S f lbracket acc st : p_import_names (S f) lbracket acc st =
  if 63 <=? N.of_nat (length acc) then
    match acc with
    | last :: _ => PErr (mkPErr PC_none [span_between (tspan lbracket) (tspan last)]) st
    | [] => PPanic PanicPrevious
    end
  else
  do t, st1 <- consume TStringLiteral err0 st;
  match match_tok TComma st1 with
  | (true, st2) => p_import_names f lbracket (t :: acc) st2
  | (false, _) => POk (rev (t :: acc)) st1
  end.
Proof. reflexivity. Qed.

Lemma import_names_sim : forall f lb1 lb2 acc1 acc2 s1 s2, vsim acc1 acc2 -> psim s1 s2 ->
  rsim vsim (p_import_names f lb1 acc1 s1) (p_import_names f lb2 acc2 s2).
Proof.
  induction f as [|f IH]; intros lb1 lb2 acc1 acc2 s1 s2 Hacc H; [exact I|].
  rewrite !p_import_names_S. rewrite (vsim_length _ _ Hacc).
  destruct (63 <=? N.of_nat (length acc2)).
  - destruct (vsim_inv _ _ Hacc) as [(E1 & E2)|(t1 & r1 & t2 & r2 & E1 & E2 & _)]; rewrite E1, E2.
    + reflexivity.
    + simpl. split; [reflexivity|exact H].
  - eapply rsim_bind; [apply consume_sim; [exact H|reflexivity]|]. intros t1 t2 a1 a2 (Ht & _) Ha.
    pose proof (vsim_cons _ _ _ _ Ht Hacc) as Hacc'.
    mt Ha.
    + apply IH; assumption.
    + split; [|exact Ha]. apply vsim_rev. exact Hacc'.
Qed.

Definition nsim (o1 o2 : option (list (text * span))) : Prop :=
  match o1, o2 with
  | Some l1, Some l2 => map (fun p => (fst p, z0)) l1 = map (fun p => (fst p, z0)) l2
  | None, None => True
  | _, _ => False
  end.

Lemma names_of_sim : forall ts1 ts2, vsim ts1 ts2 -> nsim (names_of ts1) (names_of ts2).
Proof.
  induction ts1 as [|t1 r1 IH]; intros ts2 H;
    destruct (vsim_inv _ _ H) as [(E1 & E2)|(a & r & t2 & r2 & E1 & E2 & Ht & Hr)]; try discriminate.
  - rewrite E2. reflexivity.
  - injection E1 as <- <-. rewrite E2. cbn [names_of].
    rewrite (tsim_lit_string _ _ Ht). destruct (lit_string t2) as [s|]; specialize (IH _ Hr).
    + destruct (names_of r1) as [l1|], (names_of r2) as [l2|]; simpl in IH |- *; try contradiction; [|exact I].
      rewrite IH. reflexivity.
    + destruct (names_of r1), (names_of r2); exact I.
Qed.

Definition Ronly (o1 o2 : option (list token)) : Prop :=
  match o1, o2 with
  | Some a, Some b => vsim a b
  | None, None => True
  | _, _ => False
  end.

Lemma import_final n1 n2 o1 o2 s1 s2 : tsim n1 n2 -> Ronly o1 o2 -> psim s1 s2 ->
  rsim Rs
    (match lit_string n1, (match o1 with Some ts => option_map Some (names_of ts) | None => Some None end) with
     | Some m, Some o => POk (SImport m (tspan n1) o) s1
     | _, _ => PPanic PanicLiteral
     end)
    (match lit_string n2, (match o2 with Some ts => option_map Some (names_of ts) | None => Some None end) with
     | Some m, Some o => POk (SImport m (tspan n2) o) s2
     | _, _ => PPanic PanicLiteral
     end).
Proof.
  intros Hn Ho Hs. rewrite (tsim_lit_string _ _ Hn). destruct (lit_string n2) as [m|]; [|reflexivity].
  destruct o1 as [a|], o2 as [b|]; simpl in Ho; try contradiction.
  - pose proof (names_of_sim _ _ Ho) as Hn'.
    destruct (names_of a) as [l1|], (names_of b) as [l2|]; simpl in Hn' |- *; try contradiction; [|reflexivity].
    split; [|exact Hs]. unfold Rs. cbn [erase_stmt]. rewrite Hn'. reflexivity.
  - simpl. split; [reflexivity|exact Hs].
Qed.

(** * Unfolding lemmas: statements *)

Lemma p_declaration_S f st : p_declaration (S f) st =
  match match_toks [TExport; TProcedure] st with
  | (true, st1) => p_procedure f st1
  | (false, _) => p_statement f st
  end.
Proof. reflexivity. Qed.

Lemma p_procedure_S f st : p_procedure (S f) st =
  with_prev st (fun eop =>
  do pe, st1 <- (if tk_eqb (tkind eop) TExport
                 then do pt, s1 <- consume TProcedure (fun t => mkPErr PC_standalone_export [tspan t; tspan t]) st; POk (pt, true) s1
                 else POk (eop, false) st);
  let '(proc_token, exported) := pe in
  do name_token, st2 <- consume TIdentifier (fun t => mkPErr PC_unnamed_procedure [tspan proc_token; tspan t]) st1;
  do _lp, st3 <- consume TLeftParen (fun t => mkPErr PC_missing_lp [tspan t; tspan name_token]) st2;
  do params, st4 <- (if check TRightParen st3 then POk [] st3 else p_params f 0 st3);
  do _rp, st5 <- consume TRightParen (fun t => mkPErr PC_missing_rp [tspan t]) st4;
  let fn0 := in_fn st5 in
  let lp0 := in_loop st5 in
  do body, st6 <- restore fn0 lp0 (p_statement f (set_flags st5 true false));
  POk (SProc (tlex name_token) exported params body) st6).
Proof. reflexivity. Qed.

Lemma p_statement_S f st : p_statement (S f) st =
  with_peek st (fun t =>
  if at_end st then p_expr_stmt f st else
  match tkind t with
  | TImport => p_import f (advance st)
  | TIf => p_if f t (advance st)
  | TRepeat =>
    let st1 := advance st in
    let lp0 := in_loop st1 in
    restore (in_fn st1) lp0
      (let st2 := set_flags st1 (in_fn st1) true in
       if check TUntil st2 then p_repeat_until f st2 else p_repeat_times f st2)
  | TFor =>
    let st1 := advance st in
    restore (in_fn st1) (in_loop st1) (p_for_each f (set_flags st1 (in_fn st1) true))
  | TLeftBrace => p_block f t [] (advance st)
  | TContinue => let st1 := advance st in if in_loop st1 then POk SContinue st1 else fail st1
  | TBreak => let st1 := advance st in if in_loop st1 then POk SBreak st1 else fail st1
  | TReturn =>
    let st1 := advance st in
    if negb (in_fn st1) then fail st1 else
    if at_end st1 || check TRightBrace st1 then POk (SReturn None) st1 else
    match match_tok TSoftSemi st1 with
    | (true, st2) => POk (SReturn None) st2
    | (false, _) =>
      do e, st2 <- p_expression f st1;
      do _u, st3 <- end_of_statement st2;
      POk (SReturn (Some e)) st3
    end
  | _ => p_expr_stmt f st
  end).
Proof. reflexivity. Qed.

Lemma p_expr_stmt_S f st : p_expr_stmt (S f) st =
  do e, st1 <- p_expression f st;
  if at_end st1 then POk (SExpr e) st1
  else if check TRightBrace st1 then POk (SExpr e) st1
  else do _t, st2 <- consume TSoftSemi (fun t => mkPErr PC_missing_eol [tspan t]) st1; POk (SExpr e) st2.
Proof. reflexivity. Qed.

Lemma p_block_S f lb acc st : p_block (S f) lb acc st =
  if negb (check TRightBrace st) && negb (at_end st) then
    match match_tok TSoftSemi st with
    | (true, st1) => p_block f lb acc st1
    | (false, _) =>
      do s, st1 <- p_declaration f st;
      p_block f lb (s :: acc) st1
    end
  else
    do _rb, st1 <- consume TRightBrace (fun _ => mkPErr PC_missing_rb [tspan lb]) st;
    POk (SBlock (rev acc)) st1.
Proof. reflexivity. Qed.

Lemma p_if_S f if_token st : p_if (S f) if_token st =
  do _lp, st1 <- consume TLeftParen (fun t => mkPErr PC_missing_lp [tspan t; tspan if_token]) st;
  do c, st2 <- p_expression f st1;
  do _rp, st3 <- consume TRightParen (fun t => mkPErr PC_missing_rp [tspan t]) st2;
  do th, st4 <- p_statement f st3;
  match match_tok TElse st4 with
  | (true, st5) => do el, st6 <- p_statement f st5; POk (SIf c th (Some el)) st6
  | (false, _) => POk (SIf c th None) st4
  end.
Proof. reflexivity. Qed.

Lemma p_repeat_times_S f st : p_repeat_times (S f) st =
  do n, st1 <- p_expression f st;
  with_prev st1 (fun count_token =>
  do _t, st2 <- consume TTimes (fun t => mkPErr PC_missing_times [tspan t]) st1;
  do body, st3 <- p_statement f st2;
  POk (SRepeatTimes (tspan count_token) n body) st3).
Proof. reflexivity. Qed.

Lemma p_repeat_until_S f st : p_repeat_until (S f) st =
  do until_token, st1 <- consume TUntil err0 st;
  do _lp, st2 <- consume TLeftParen (fun t => mkPErr PC_missing_lp [tspan t; tspan until_token]) st1;
  do c, st3 <- p_expression f st2;
  do _rp, st4 <- consume TRightParen (fun t => mkPErr PC_missing_rp [tspan t]) st3;
  do body, st5 <- p_statement f st4;
  POk (SRepeatUntil c body) st5.
Proof. reflexivity. Qed.

Lemma p_for_each_S f st : p_for_each (S f) st =
  do each_token, st1 <- consume TEach (fun t => mkPErr PC_missing_each [tspan t]) st;
  do item, st2 <- consume TIdentifier (fun t => mkPErr PC_missing_ident [tspan each_token; tspan t]) st1;
  do _in, st3 <- consume TIn (fun t => mkPErr PC_missing_in [tspan item; tspan t]) st2;
  do l, st4 <- p_expression f st3;
  with_prev st4 (fun list_token =>
  do body, st5 <- p_statement f st4;
  POk (SForEach (tlex item) (tspan item) (tspan list_token) l body) st5).
Proof. reflexivity. Qed.

Lemma p_import_S f st : p_import (S f) st =
  do only, st1 <-
    (match match_tok TLeftBracket st with
     | (true, s1) =>
       with_prev s1 (fun lbracket =>
       do names, s2 <- p_import_names f lbracket [] s1;
       do _rb, s3 <- consume TRightBracket err0 s2;
       POk (Some names) s3)
     | (false, _) =>
       match match_tok TStringLiteral st with
       | (true, s1) => with_prev s1 (fun one => POk (Some [one]) s1)
       | (false, _) => POk None st
       end
     end);
  do _from, st2 <- (match only with
                    | Some _ => do t, s <- consume TFrom err0 st1; POk tt s
                    | None => POk tt st1
                    end);
  do _mod, st3 <- consume TMod err0 st2;
  do name, st4 <- consume TStringLiteral err0 st3;
  do _u, st5 <- end_of_statement st4;
  match lit_string name, (match only with Some ts => option_map Some (names_of ts) | None => Some None end) with
  | Some m, Some o => POk (SImport m (tspan name) o) st5
  | _, _ => PPanic PanicLiteral
  end.
Proof. reflexivity. Qed.

(** * The statement parser respects views *)

Lemma import_sim f s1 s2 : psim s1 s2 -> rsim Rs (p_import f s1) (p_import f s2).
Proof.
  destruct f as [|f]; intros H; [exact I|]. rewrite !p_import_S.
  eapply rsim_bind with (R := Ronly).
  { mt H.
    - apply rsim_with_prev; [exact Hs|]. intros lb1 lb2 Hlb.
      eapply rsim_bind; [apply import_names_sim; [reflexivity|exact Hs]|]. intros n1 n2 a1 a2 Hn Ha.
      eapply rsim_bind; [apply consume_sim; [exact Ha|reflexivity]|]. intros rb1 rb2 c1 c2 _ Hc.
      split; [exact Hn|exact Hc].
    - mt H.
      + apply rsim_with_prev; [exact Hs0|]. intros o1 o2 Ho.
        split; [|exact Hs0]. simpl. apply vsim_cons; [exact Ho|reflexivity].
      + split; [exact I|exact H]. }
  intros o1 o2 a1 a2 Ho Ha.
  eapply rsim_bind with (R := @Rany unit).
  { destruct o1, o2; simpl in Ho; try contradiction.
    - eapply rsim_bind; [apply consume_sim; [exact Ha|reflexivity]|]. intros t1 t2 c1 c2 _ Hc.
      split; [exact I|exact Hc].
    - split; [exact I|exact Ha]. }
  intros u1 u2 b1 b2 _ Hb.
  eapply rsim_bind; [apply consume_sim; [exact Hb|reflexivity]|]. intros m1 m2 c1 c2 _ Hc.
  eapply rsim_bind; [apply consume_sim; [exact Hc|reflexivity]|]. intros n1 n2 d1 d2 (Hn & _) Hd.
  eapply rsim_bind; [apply end_of_statement_sim; exact Hd|]. intros v1 v2 e1 e2 _ He.
  apply import_final; assumption.
Qed.

Section StmtStep.
  Variable f : nat.
  Hypothesis IHdecl : forall s1 s2, psim s1 s2 -> rsim Rs (p_declaration f s1) (p_declaration f s2).
  Hypothesis IHproc : forall s1 s2, psim s1 s2 -> rsim Rs (p_procedure f s1) (p_procedure f s2).
  Hypothesis IHstmt : forall s1 s2, psim s1 s2 -> rsim Rs (p_statement f s1) (p_statement f s2).
  Hypothesis IHexprstmt : forall s1 s2, psim s1 s2 -> rsim Rs (p_expr_stmt f s1) (p_expr_stmt f s2).
  Hypothesis IHblock : forall lb1 lb2 acc1 acc2 s1 s2, map erase_stmt acc1 = map erase_stmt acc2 -> psim s1 s2 ->
    rsim Rs (p_block f lb1 acc1 s1) (p_block f lb2 acc2 s2).
  Hypothesis IHif : forall t1 t2 s1 s2, psim s1 s2 -> rsim Rs (p_if f t1 s1) (p_if f t2 s2).
  Hypothesis IHtimes : forall s1 s2, psim s1 s2 -> rsim Rs (p_repeat_times f s1) (p_repeat_times f s2).
  Hypothesis IHuntil : forall s1 s2, psim s1 s2 -> rsim Rs (p_repeat_until f s1) (p_repeat_until f s2).
  Hypothesis IHforeach : forall s1 s2, psim s1 s2 -> rsim Rs (p_for_each f s1) (p_for_each f s2).

  Lemma declaration_step s1 s2 : psim s1 s2 -> rsim Rs (p_declaration (S f) s1) (p_declaration (S f) s2).
  Proof.
    intros H. rewrite !p_declaration_S. mts H.
    - apply IHproc; exact Hs.
    - apply IHstmt; exact H.
  Qed.

  Lemma procedure_step s1 s2 : psim s1 s2 -> rsim Rs (p_procedure (S f) s1) (p_procedure (S f) s2).
  Proof.
    intros H. rewrite !p_procedure_S.
    apply rsim_with_prev; [exact H|]. intros eop1 eop2 Heop.
    eapply rsim_bind with (R := fun p1 p2 : token * bool => snd p1 = snd p2).
    { rewrite (tsim_kind _ _ Heop). destruct (tk_eqb (tkind eop2) TExport).
      - eapply rsim_bind; [apply consume_sim; [exact H|reflexivity]|]. intros t1 t2 c1 c2 _ Hc.
        split; [reflexivity|exact Hc].
      - split; [reflexivity|exact H]. }
    intros [pt1 ex1] [pt2 ex2] a1 a2 Hex Ha. cbn [snd] in Hex. subst ex2.
    eapply rsim_bind; [apply consume_sim; [exact Ha|reflexivity]|]. intros nm1 nm2 b1 b2 Hnm Hb.
    pose proof (ksim_ident _ _ Hnm) as Hlex.
    eapply rsim_bind; [apply consume_sim; [exact Hb|reflexivity]|]. intros lp1 lp2 c1 c2 _ Hc.
    eapply rsim_bind with (R := eq).
    { rewrite (check_sim _ _ _ Hc). destruct (check TRightParen c2).
      - split; [reflexivity|exact Hc].
      - apply params_sim; exact Hc. }
    intros ps1 ps2 d1 d2 Hps Hd. subst ps2.
    eapply rsim_bind; [apply consume_sim; [exact Hd|reflexivity]|]. intros rp1 rp2 e1 e2 _ He.
    cbv zeta. rewrite (psim_fn _ _ He), (psim_loop _ _ He).
    eapply rsim_bind; [apply restore_sim; apply IHstmt; apply set_flags_sim; exact He|].
    intros bd1 bd2 g1 g2 Hbd Hg.
    split; [|exact Hg]. unfold Rs in *. cbn [erase_stmt]. congruence.
  Qed.

  Lemma statement_step s1 s2 : psim s1 s2 -> rsim Rs (p_statement (S f) s1) (p_statement (S f) s2).
  Proof.
    intros H. rewrite !p_statement_S.
    apply rsim_with_peek; [exact H|]. intros t1 t2 Ht.
    rewrite (at_end_sim _ _ H). destruct (at_end s2); [apply IHexprstmt; exact H|].
    pose proof (advance_sim _ _ H) as Hadv.
    rewrite <- (tsim_kind _ _ Ht).
    destruct (tkind t1) eqn:K; try (apply IHexprstmt; exact H); cbv zeta.
    - (* { *) apply IHblock; [reflexivity|exact Hadv].
    - (* IF *) apply IHif; exact Hadv.
    - (* REPEAT *)
      rewrite (psim_fn _ _ Hadv), (psim_loop _ _ Hadv). apply restore_sim.
      pose proof (set_flags_sim _ _ (in_fn (advance s2)) true Hadv) as Hfl.
      rewrite (check_sim _ _ _ Hfl). destruct (check TUntil (set_flags (advance s2) (in_fn (advance s2)) true)).
      + apply IHuntil; exact Hfl.
      + apply IHtimes; exact Hfl.
    - (* FOR *)
      rewrite (psim_fn _ _ Hadv), (psim_loop _ _ Hadv). apply restore_sim.
      apply IHforeach. apply set_flags_sim. exact Hadv.
    - (* CONTINUE *)
      rewrite (psim_loop _ _ Hadv). destruct (in_loop (advance s2)).
      + split; [reflexivity|exact Hadv].
      + apply rsim_fail; exact Hadv.
    - (* BREAK *)
      rewrite (psim_loop _ _ Hadv). destruct (in_loop (advance s2)).
      + split; [reflexivity|exact Hadv].
      + apply rsim_fail; exact Hadv.
    - (* RETURN *)
      rewrite (psim_fn _ _ Hadv). destruct (negb (in_fn (advance s2))); [apply rsim_fail; exact Hadv|].
      rewrite (at_end_sim _ _ Hadv), (check_sim _ _ _ Hadv).
      destruct (at_end (advance s2) || check TRightBrace (advance s2)); [split; [reflexivity|exact Hadv]|].
      mt Hadv.
      + split; [reflexivity|exact Hs].
      + eapply rsim_bind; [apply expression_sim; exact Hadv|]. intros e1 e2 a1 a2 He Ha.
        eapply rsim_bind; [apply end_of_statement_sim; exact Ha|]. intros u1 u2 c1 c2 _ Hc.
        split; [|exact Hc]. unfold Rs, Re in *. cbn [erase_stmt]. congruence.
    - (* IMPORT *) apply import_sim; exact Hadv.
  Qed.

  Lemma expr_stmt_step s1 s2 : psim s1 s2 -> rsim Rs (p_expr_stmt (S f) s1) (p_expr_stmt (S f) s2).
  Proof.
    intros H. rewrite !p_expr_stmt_S.
    eapply rsim_bind; [apply expression_sim; exact H|]. intros e1 e2 a1 a2 He Ha.
    assert (Hr : Rs (SExpr e1) (SExpr e2)) by (unfold Rs, Re in *; cbn [erase_stmt]; congruence).
    rewrite (at_end_sim _ _ Ha). destruct (at_end a2); [split; assumption|].
    rewrite (check_sim _ _ _ Ha). destruct (check TRightBrace a2); [split; assumption|].
    eapply rsim_bind; [apply consume_sim; [exact Ha|reflexivity]|]. intros t1 t2 c1 c2 _ Hc.
    split; assumption.
  Qed.

  Lemma block_step lb1 lb2 acc1 acc2 s1 s2 : map erase_stmt acc1 = map erase_stmt acc2 -> psim s1 s2 ->
    rsim Rs (p_block (S f) lb1 acc1 s1) (p_block (S f) lb2 acc2 s2).
  Proof.
    intros Hacc H. rewrite !p_block_S.
    rewrite (check_sim _ _ _ H), (at_end_sim _ _ H).
    destruct (negb (check TRightBrace s2) && negb (at_end s2)).
    - mt H.
      + apply IHblock; assumption.
      + eapply rsim_bind; [apply IHdecl; exact H|]. intros x1 x2 a1 a2 Hx Ha.
        apply IHblock; [|exact Ha]. unfold Rs in Hx. cbn [map]. congruence.
    - eapply rsim_bind; [apply consume_sim; [exact H|reflexivity]|]. intros t1 t2 c1 c2 _ Hc.
      split; [|exact Hc]. unfold Rs. cbn [erase_stmt]. rewrite !map_rev, Hacc. reflexivity.
  Qed.

  Lemma if_step t1 t2 s1 s2 : psim s1 s2 -> rsim Rs (p_if (S f) t1 s1) (p_if (S f) t2 s2).
  Proof.
    intros H. rewrite !p_if_S.
    eapply rsim_bind; [apply consume_sim; [exact H|reflexivity]|]. intros lp1 lp2 a1 a2 _ Ha.
    eapply rsim_bind; [apply expression_sim; exact Ha|]. intros c1 c2 b1 b2 Hc Hb.
    eapply rsim_bind; [apply consume_sim; [exact Hb|reflexivity]|]. intros rp1 rp2 d1 d2 _ Hd.
    eapply rsim_bind; [apply IHstmt; exact Hd|]. intros th1 th2 g1 g2 Hth Hg.
    mt Hg.
    - eapply rsim_bind; [apply IHstmt; exact Hs|]. intros el1 el2 h1 h2 Hel Hh.
      split; [|exact Hh]. unfold Rs, Re in *. cbn [erase_stmt]. congruence.
    - split; [|exact Hg]. unfold Rs, Re in *. cbn [erase_stmt]. congruence.
  Qed.

  Lemma times_step s1 s2 : psim s1 s2 -> rsim Rs (p_repeat_times (S f) s1) (p_repeat_times (S f) s2).
  Proof.
    intros H. rewrite !p_repeat_times_S.
    eapply rsim_bind; [apply expression_sim; exact H|]. intros n1 n2 a1 a2 Hn Ha.
    apply rsim_with_prev; [exact Ha|]. intros ct1 ct2 Hct.
    eapply rsim_bind; [apply consume_sim; [exact Ha|reflexivity]|]. intros t1 t2 b1 b2 _ Hb.
    eapply rsim_bind; [apply IHstmt; exact Hb|]. intros bd1 bd2 c1 c2 Hbd Hc.
    split; [|exact Hc]. unfold Rs, Re in *. cbn [erase_stmt]. congruence.
  Qed.

  Lemma until_step s1 s2 : psim s1 s2 -> rsim Rs (p_repeat_until (S f) s1) (p_repeat_until (S f) s2).
  Proof.
    intros H. rewrite !p_repeat_until_S.
    eapply rsim_bind; [apply consume_sim; [exact H|reflexivity]|]. intros u1 u2 a1 a2 _ Ha.
    eapply rsim_bind; [apply consume_sim; [exact Ha|reflexivity]|]. intros lp1 lp2 b1 b2 _ Hb.
    eapply rsim_bind; [apply expression_sim; exact Hb|]. intros c1 c2 d1 d2 Hc Hd.
    eapply rsim_bind; [apply consume_sim; [exact Hd|reflexivity]|]. intros rp1 rp2 g1 g2 _ Hg.
    eapply rsim_bind; [apply IHstmt; exact Hg|]. intros bd1 bd2 h1 h2 Hbd Hh.
    split; [|exact Hh]. unfold Rs, Re in *. cbn [erase_stmt]. congruence.
  Qed.

  Lemma for_each_step s1 s2 : psim s1 s2 -> rsim Rs (p_for_each (S f) s1) (p_for_each (S f) s2).
  Proof.
    intros H. rewrite !p_for_each_S.
    eapply rsim_bind; [apply consume_sim; [exact H|reflexivity]|]. intros ea1 ea2 a1 a2 _ Ha.
    eapply rsim_bind; [apply consume_sim; [exact Ha|reflexivity]|]. intros it1 it2 b1 b2 Hit Hb.
    pose proof (ksim_ident _ _ Hit) as Hlex.
    eapply rsim_bind; [apply consume_sim; [exact Hb|reflexivity]|]. intros in1 in2 c1 c2 _ Hc.
    eapply rsim_bind; [apply expression_sim; exact Hc|]. intros l1 l2 d1 d2 Hl Hd.
    apply rsim_with_prev; [exact Hd|]. intros lt1 lt2 Hlt.
    eapply rsim_bind; [apply IHstmt; exact Hd|]. intros bd1 bd2 g1 g2 Hbd Hg.
    split; [|exact Hg]. unfold Rs, Re in *. cbn [erase_stmt]. congruence.
  Qed.
End StmtStep.

Lemma stmt_sim : forall f,
  (forall s1 s2, psim s1 s2 -> rsim Rs (p_declaration f s1) (p_declaration f s2)) /\
  (forall s1 s2, psim s1 s2 -> rsim Rs (p_procedure f s1) (p_procedure f s2)) /\
  (forall s1 s2, psim s1 s2 -> rsim Rs (p_statement f s1) (p_statement f s2)) /\
  (forall s1 s2, psim s1 s2 -> rsim Rs (p_expr_stmt f s1) (p_expr_stmt f s2)) /\
  (forall lb1 lb2 acc1 acc2 s1 s2, map erase_stmt acc1 = map erase_stmt acc2 -> psim s1 s2 ->
     rsim Rs (p_block f lb1 acc1 s1) (p_block f lb2 acc2 s2)) /\
  (forall t1 t2 s1 s2, psim s1 s2 -> rsim Rs (p_if f t1 s1) (p_if f t2 s2)) /\
  (forall s1 s2, psim s1 s2 -> rsim Rs (p_repeat_times f s1) (p_repeat_times f s2)) /\
  (forall s1 s2, psim s1 s2 -> rsim Rs (p_repeat_until f s1) (p_repeat_until f s2)) /\
  (forall s1 s2, psim s1 s2 -> rsim Rs (p_for_each f s1) (p_for_each f s2)).
Proof.
  induction f as [|f (I1 & I2 & I3 & I4 & I5 & I6 & I7 & I8 & I9)].
  - repeat split; intros; exact I.
  - repeat apply conj.
    + apply declaration_step; assumption.
    + apply procedure_step; assumption.
    + apply statement_step; assumption.
    + apply expr_stmt_step; assumption.
    + apply block_step; assumption.
    + apply if_step; assumption.
    + apply times_step; assumption.
    + apply until_step; assumption.
    + apply for_each_step; assumption.
Qed.

Lemma declaration_sim f s1 s2 : psim s1 s2 -> rsim Rs (p_declaration f s1) (p_declaration f s2).
Proof. apply (proj1 (stmt_sim f)). Qed.

(** * Error recovery and the program loop *)

Lemma sync_loop_sim : forall n s1 s2, psim s1 s2 -> psim (sync_loop n s1) (sync_loop n s2).
Proof.
  induction n as [|n IH]; intros s1 s2 H; [exact H|].
  cbn [sync_loop]. rewrite (at_end_sim _ _ H). destruct (at_end s2); [exact H|].
  rewrite (peek_kind_sim _ _ H). destruct (peek_kind s2) as [k|]; [|exact H].
  destruct (tk_in k sync_set); [exact H|]. apply IH. apply advance_sim. exact H.
Qed.

Lemma synchronize_sim s1 s2 : psim s1 s2 -> psim (synchronize s1) (synchronize s2).
Proof.
  intros H. unfold synchronize.
  assert (Ha : psim (if sync_advances_first then advance s1 else s1) (if sync_advances_first then advance s2 else s2)).
  { destruct sync_advances_first; [apply advance_sim|]; exact H. }
  rewrite (vsim_length _ _ (proj1 Ha)). apply sync_loop_sim. exact Ha.
Qed.

Lemma program_loop_S f inner st stmts errs : program_loop (S f) inner st stmts errs =
  match rest st with
  | [] => ParsePanic PanicPeek
  | _ =>
    if at_end st then
      match errs with [] => ParseOk (rev stmts) | _ => ParseErr (rev errs) end
    else
      match match_tok TSoftSemi st with
      | (true, st1) => program_loop f inner st1 stmts errs
      | (false, _) =>
        match p_declaration inner st with
        | POk s st1 => program_loop f inner st1 (s :: stmts) errs
        | PErr e st1 => program_loop f inner (synchronize st1) stmts (e :: errs)
        | PPanic site => ParsePanic site
        | PFuel => ParseFuel
        end
      end
  end.
Proof. reflexivity. Qed.

Lemma program_loop_sim inner : forall f s1 s2 ss1 ss2 es1 es2,
  psim s1 s2 -> map erase_stmt ss1 = map erase_stmt ss2 -> map pe_code es1 = map pe_code es2 ->
  parse_sim (program_loop f inner s1 ss1 es1) (program_loop f inner s2 ss2 es2).
Proof.
  induction f as [|f IH]; intros s1 s2 ss1 ss2 es1 es2 H Hss Hes; [exact I|].
  rewrite !program_loop_S.
  destruct (psim_inv _ _ H) as [(E1 & E2)|(t1 & r1 & t2 & r2 & E1 & E2 & Ht & Hr)]; rewrite E1, E2; [reflexivity|].
  rewrite (at_end_sim _ _ H). destruct (at_end s2).
  - destruct es1 as [|e1 es1], es2 as [|e2 es2]; try discriminate Hes.
    + simpl. unfold erase_prog. rewrite !map_rev, Hss. reflexivity.
    + cbn [parse_sim]. rewrite !map_rev, Hes. reflexivity.
  - mt H.
    + apply IH; assumption.
    + pose proof (declaration_sim inner _ _ H) as Hd.
      destruct (p_declaration inner s1) as [x1 a1|e1 a1|p1|], (p_declaration inner s2) as [x2 a2|e2 a2|p2|];
        simpl in Hd; try contradiction.
      * destruct Hd as (Hx & Ha). apply IH; [exact Ha| |exact Hes]. unfold Rs in Hx. cbn [map]. congruence.
      * destruct Hd as (He & Ha). apply IH; [apply synchronize_sim; exact Ha|exact Hss|]. cbn [map]. congruence.
      * exact Hd.
      * exact I.
Qed.

Theorem parse_view : forall ts1 ts2, same_views ts1 ts2 -> parse_sim (parse_tokens ts1) (parse_tokens ts2).
Proof.
  intros ts1 ts2 H. unfold parse_tokens, fuel_for.
  rewrite (vsim_length ts1 ts2 H).
  apply program_loop_sim; [|reflexivity|reflexivity].
  unfold psim. simpl. repeat split. exact H.
Qed.
