(** SpecLemmas: sanity lemmas about the reference semantics (EvalSpec.v), used by Props/C02.v
    and Props/C03.v.  Almost all are one-step unfoldings of [seval] / [sexec] and their helpers;
    [count_nonpositive] goes through the standard library's specification of primitive floats
    ([FloatAxioms.leb_spec]); [callee_scope] / [binding_copies_values] are about the scope built
    by positional binding. *)
From Aplang Require Import Base FloatX Token Ast Tables Value EvalImpl EvalSpec.
From Coq Require Import Floats SpecFloat ZArith Lia List.
Import ListNotations.
Open Scope N_scope.

(** * C02: control flow *)

Lemma truthy_r_some : forall v b st, truthy v = Some b -> truthy_r v st = ROk b st.
Proof. intros v b st Ht. unfold truthy_r. rewrite Ht. reflexivity. Qed.

Lemma if_one_branch : forall f c t e st v st1 b,
  seval f c st = ROk v st1 -> truthy v = Some b ->
  sexec (S f) (SIf c t e) st =
    (if b then sexec f t st1 else match e with Some e1 => sexec f e1 st1 | None => ROk Normal st1 end).
Proof.
  intros f c t e st v st1 b Hc Ht.
  cbn [sexec]. rewrite Hc. cbn [rbind]. rewrite (truthy_r_some _ _ _ Ht). cbn [rbind].
  reflexivity.
Qed.

(** ** the repeat count *)

Lemma trunc_arg_nonneg : forall m e,
  (0 <= (if 0 <=? e then Zpos m * 2 ^ e else Zpos m / 2 ^ (- e)))%Z.
Proof.
  intros m e. destruct (0 <=? e)%Z eqn:He.
  - apply Z.leb_le in He. apply Z.mul_nonneg_nonneg; [lia|]. apply Z.pow_nonneg. lia.
  - apply Z.leb_gt in He. apply Z.div_pos; [lia|]. apply Z.pow_pos_nonneg; lia.
Qed.

Lemma count_nonpositive : forall x, (PrimFloat.leb x 0 = true \/ is_nan_f x = true) -> to_usize x = 0%N.
Proof.
  intros x Hx. unfold to_usize, is_nan_f, sf in *.
  destruct (Prim2SF x) as [sz | si | | s m e] eqn:Hsf.
  - (* zero *) reflexivity.
  - (* infinity *)
    destruct si; [reflexivity|].
    destruct Hx as [Hle | Hnan]; [|discriminate Hnan].
    rewrite leb_spec, Hsf in Hle. discriminate Hle.
  - (* nan *) reflexivity.
  - (* finite *)
    destruct s.
    + (* negative *)
      cbn [sf_trunc_Z].
      pose proof (trunc_arg_nonneg m e) as Hnn.
      set (a := (if (0 <=? e)%Z then (Z.pos m * 2 ^ e)%Z else (Z.pos m / 2 ^ (- e))%Z)) in *.
      destruct (- a <? 0)%Z eqn:Hneg; [reflexivity|].
      apply Z.ltb_ge in Hneg.
      assert (Ha : a = 0%Z) by lia. rewrite Ha. reflexivity.
    + (* positive: contradicts x <= 0 *)
      destruct Hx as [Hle | Hnan]; [|discriminate Hnan].
      rewrite leb_spec, Hsf in Hle. discriminate Hle.
Qed.

Lemma times_zero : forall ex k body st, s_times ex (S k) 0 body st = ROk Normal st.
Proof. intros ex k body st. reflexivity. Qed.

Lemma times_step : forall ex k n body st sg st1, n <> 0%N -> ex body st = ROk sg st1 ->
  s_times ex (S k) n body st =
    match sg with
    | Break => ROk Normal st1
    | Return v => ROk (Return v) st1
    | _ => s_times ex k (n - 1) body st1
    end.
Proof.
  intros ex k n body st sg st1 Hn Hex.
  cbn [s_times]. apply N.eqb_neq in Hn. rewrite Hn, Hex. cbn [rbind].
  destruct sg; reflexivity.
Qed.

Lemma until_pretest : forall ev ex k c body st v st1,
  ev c st = ROk v st1 -> truthy v = Some true -> s_until ev ex (S k) c body st = ROk Normal st1.
Proof.
  intros ev ex k c body st v st1 Hev Ht.
  cbn [s_until]. rewrite Hev. cbn [rbind]. rewrite (truthy_r_some _ _ _ Ht). reflexivity.
Qed.

Lemma nothing_after_signal : forall ex s ss st sg st1,
  ex s st = ROk sg st1 -> sg <> Normal -> s_block ex (s :: ss) st = ROk sg st1.
Proof.
  intros ex s ss st sg st1 Hex Hsg.
  cbn [s_block]. rewrite Hex. cbn [rbind].
  destruct sg; [contradiction Hsg; reflexivity | reflexivity | reflexivity | reflexivity].
Qed.

Lemma block_in_order : forall ex s ss st st1,
  ex s st = ROk Normal st1 -> s_block ex (s :: ss) st = s_block ex ss st1.
Proof.
  intros ex s ss st st1 Hex. cbn [s_block]. rewrite Hex. reflexivity.
Qed.

Lemma loop_absorbs_break : forall ex k n body st sg st1,
  s_times ex k n body st = ROk sg st1 -> sg = Normal \/ exists v, sg = Return v.
Proof.
  intros ex k. induction k as [|k IH]; intros n body st sg st1 Hrun.
  - discriminate Hrun.
  - cbn [s_times] in Hrun.
    destruct (n =? 0).
    + inversion Hrun; subst. left; reflexivity.
    + destruct (ex body st) as [sg0 st0 | | | |] eqn:Hex; cbn [rbind] in Hrun; try discriminate Hrun.
      destruct sg0 as [| | | v0].
      * exact (IH _ _ _ _ _ Hrun).
      * inversion Hrun; subst. left; reflexivity.
      * exact (IH _ _ _ _ _ Hrun).
      * inversion Hrun; subst. right. exists v0. reflexivity.
Qed.

(** * C03: procedure calls *)

Lemma undefined_is_error : forall f name tok lp rp spans args st vs st1,
  eval_args (seval f) args st = ROk vs st1 -> ft_get (funcs st1) name = None ->
  seval (S f) (ECall name tok lp rp spans args) st = RErr InvalidProcedure tok st1.
Proof.
  intros f name tok lp rp spans args st vs st1 Hargs Hget.
  cbn [seval]. rewrite Hargs. cbn [rbind]. rewrite Hget. reflexivity.
Qed.

Lemma arity_is_error : forall f name tok lp rp spans args st vs st1 params body,
  eval_args (seval f) args st = ROk vs st1 -> ft_get (funcs st1) name = Some (FUser params body) ->
  length params <> length vs ->
  seval (S f) (ECall name tok lp rp spans args) st = RErr IncorrectArgs (interior lp rp) st1.
Proof.
  intros f name tok lp rp spans args st vs st1 params body Hargs Hget Hlen.
  cbn [seval]. rewrite Hargs. cbn [rbind]. rewrite Hget.
  apply Nat.eqb_neq in Hlen. rewrite Hlen. reflexivity.
Qed.

Lemma call_value_and_frame : forall f name tok lp rp spans args st vs st1 params body sg st2,
  eval_args (seval f) args st = ROk vs st1 -> ft_get (funcs st1) name = Some (FUser params body) ->
  length params = length vs ->
  sexec f body (with_scope st1 (fold_left (fun sc pv => scope_set sc (fst pv) (snd pv)) (combine params vs) [])) = ROk sg st2 ->
  seval (S f) (ECall name tok lp rp spans args) st =
    ROk (match sg with Return v => v | _ => VNull end) (set_venv st2 (venv st1)).
Proof.
  intros f name tok lp rp spans args st vs st1 params body sg st2 Hargs Hget Hlen Hbody.
  cbn [seval]. rewrite Hargs. cbn [rbind]. rewrite Hget.
  apply Nat.eqb_eq in Hlen. rewrite Hlen. cbn [negb].
  rewrite Hbody. reflexivity.
Qed.

(** ** scopes *)

Lemma scope_get_remove : forall s y x,
  scope_get (scope_remove s y) x = if text_eqb x y then None else scope_get s x.
Proof.
  intros s y x. induction s as [|[z w] s IH]; cbn [scope_remove scope_get].
  - destruct (text_eqb x y); reflexivity.
  - destruct (text_eqb y z) eqn:Hyz.
    + rewrite IH. destruct (text_eqb x y) eqn:Hxy; [reflexivity|].
      apply text_eqb_eq in Hyz. subst z. rewrite Hxy. reflexivity.
    + cbn [scope_get]. rewrite IH.
      destruct (text_eqb x z) eqn:Hxz; [|reflexivity].
      destruct (text_eqb x y) eqn:Hxy; [|reflexivity].
      apply text_eqb_eq in Hxz. apply text_eqb_eq in Hxy. subst.
      rewrite text_eqb_refl in Hyz. discriminate Hyz.
Qed.

Lemma scope_get_set : forall s y v x,
  scope_get (scope_set s y v) x = if text_eqb x y then Some v else scope_get s x.
Proof.
  intros s y v x. unfold scope_set. cbn [scope_get]. rewrite scope_get_remove.
  destruct (text_eqb x y); reflexivity.
Qed.

Definition bind_params (l : list (text * value)) (acc : scope) : scope :=
  fold_left (fun sc pv => scope_set sc (fst pv) (snd pv)) l acc.

Lemma bind_params_get_in : forall l acc x,
  scope_get (bind_params l acc) x <> None -> In x (map fst l) \/ scope_get acc x <> None.
Proof.
  intros l. induction l as [|[p v] l IH]; intros acc x Hget; cbn [bind_params fold_left map fst snd] in *.
  - right. exact Hget.
  - destruct (IH _ _ Hget) as [Hin | Hacc].
    + left. right. exact Hin.
    + rewrite scope_get_set in Hacc. destruct (text_eqb x p) eqn:Hxp.
      * apply text_eqb_eq in Hxp. left. left. symmetry. exact Hxp.
      * right. exact Hacc.
Qed.

Lemma bind_params_get_notin : forall l acc x,
  ~ In x (map fst l) -> scope_get (bind_params l acc) x = scope_get acc x.
Proof.
  intros l. induction l as [|[p v] l IH]; intros acc x Hnin; cbn [bind_params fold_left map fst snd] in *.
  - reflexivity.
  - change (scope_get (bind_params l (scope_set acc p v)) x = scope_get acc x).
    rewrite IH by (intro Hin; apply Hnin; right; exact Hin).
    rewrite scope_get_set. destruct (text_eqb x p) eqn:Hxp; [|reflexivity].
    apply text_eqb_eq in Hxp. exfalso. apply Hnin. left. symmetry. exact Hxp.
Qed.

Lemma in_map_fst_combine : forall (A B : Type) (l : list A) (l' : list B) x,
  In x (map fst (combine l l')) -> In x l.
Proof.
  intros A B l. induction l as [|a l IH]; intros [|b l'] x Hin; cbn in *; try contradiction.
  destruct Hin as [Heq | Hin]; [left; exact Heq | right; exact (IH _ _ Hin)].
Qed.

Lemma callee_scope : forall params vs x,
  length params = length vs ->
  scope_get (fold_left (fun sc pv => scope_set sc (fst pv) (snd pv)) (combine params vs) []) x <> None ->
  In x params.
Proof.
  intros params vs x _ Hget.
  destruct (bind_params_get_in _ _ _ Hget) as [Hin | Hnil].
  - exact (in_map_fst_combine _ _ _ _ _ Hin).
  - contradiction Hnil. reflexivity.
Qed.

Lemma call_independent_of_caller_env : forall f body st sc venv1 venv2,
  sexec f body (with_scope (set_venv st venv1) sc) = sexec f body (with_scope (set_venv st venv2) sc).
Proof. intros f body st sc venv1 venv2. reflexivity. Qed.

Lemma return_propagates_through_blocks : forall ex s ss st v st1,
  ex s st = ROk (Return v) st1 -> s_block ex (s :: ss) st = ROk (Return v) st1.
Proof.
  intros ex s ss st v st1 Hex. cbn [s_block]. rewrite Hex. reflexivity.
Qed.

Lemma return_propagates_through_times : forall ex k n body st v st1, n <> 0%N ->
  ex body st = ROk (Return v) st1 -> s_times ex (S k) n body st = ROk (Return v) st1.
Proof.
  intros ex k n body st v st1 Hn Hex. rewrite (times_step _ _ _ _ _ _ _ Hn Hex). reflexivity.
Qed.

Lemma bind_params_get_pair : forall l acc p v,
  NoDup (map fst l) -> In (p, v) l -> scope_get (bind_params l acc) p = Some v.
Proof.
  intros l. induction l as [|[q w] l IH]; intros acc p v Hnd Hin; cbn [map fst] in Hnd.
  - contradiction Hin.
  - inversion Hnd as [|q' l' Hnin Hnd']; subst.
    change (scope_get (bind_params l (scope_set acc q w)) p = Some v).
    destruct Hin as [Heq | Hin].
    + inversion Heq; subst. rewrite (bind_params_get_notin _ _ _ Hnin).
      rewrite scope_get_set, text_eqb_refl. reflexivity.
    + exact (IH _ _ _ Hnd' Hin).
Qed.

Lemma map_fst_combine_eq : forall (A B : Type) (l : list A) (l' : list B),
  length l = length l' -> map fst (combine l l') = l.
Proof.
  intros A B l. induction l as [|a l IH]; intros [|b l'] Hlen; cbn in *; try discriminate Hlen.
  - reflexivity.
  - f_equal. apply IH. congruence.
Qed.

Lemma binding_copies_values : forall params vs p v,
  NoDup params -> length params = length vs -> In (p, v) (combine params vs) ->
  scope_get (fold_left (fun sc pv => scope_set sc (fst pv) (snd pv)) (combine params vs) []) p = Some v.
Proof.
  intros params vs p v Hnd Hlen Hin.
  apply (bind_params_get_pair (combine params vs) [] p v); [|exact Hin].
  rewrite (map_fst_combine_eq _ _ _ _ Hlen). exact Hnd.
Qed.
