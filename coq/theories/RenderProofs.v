(** RenderProofs: the ASCII rendering of the robot's grid determines the state (used by Props/C17b.v).
    - checkpoints of a parsed grid carry a single digit 1..9, and steps keep that;
    - every cell renders to exactly two characters followed by a blank, the texts of the cells and of
      the headings are pairwise distinct, so equal renderings of two grids of the same size give the
      same robot position, heading and cells (except the cell hidden under the robot). *)
From Aplang Require Import Base Robot RobotProofs.
Open Scope N_scope.

(** * Definitions mirrored by Props/C17b.v *)
Definition RInv (r : robot) : Prop :=
  length (area r) = height r /\
  Forall (fun row => length row = width r) (area r) /\
  (loc_x r < width r)%nat /\ (loc_y r < height r)%nat.

Definition Digits (r : robot) : Prop :=
  forall x y k, cell_at r x y = Some (Checkpoint k) -> (1 <= k <= 9)%N.

Definition dig (c : cell) : Prop :=
  match c with Checkpoint k => 1 <= k <= 9 | _ => True end.

(** * The parser produces single digits *)
Lemma classify_dig ch c : classify ch = SCell c -> dig c.
Proof.
  unfold classify.
  repeat match goal with |- context [if ?b then _ else _] => destruct b eqn:? end;
    intros H; inversion H; subst; simpl; auto.
  match goal with
  | Ha : (48 <=? ch) && (ch <=? 57) = true, Hb : (ch =? 48) = false |- _ =>
    apply andb_true_iff in Ha as [H1 H2]; apply N.leb_le in H1; apply N.leb_le in H2;
    apply N.eqb_neq in Hb; lia
  end.
Qed.

Lemma parse_row_dig chars : forall x y rb cs rb',
  parse_row chars x y rb = Some (cs, rb') -> Forall dig cs.
Proof.
  induction chars as [|ch r IH]; intros x y rb cs rb' H; cbn [parse_row] in H.
  - inversion H; subst. constructor.
  - destruct (classify ch) as [c|d|] eqn:EC; [| |discriminate].
    + destruct (parse_row r (S x) y rb) as [[cs1 rb1]|] eqn:E; [|discriminate].
      inversion H; subst. constructor; [eapply classify_dig; eauto|eapply IH; eauto].
    + destruct rb as [?|]; [discriminate|].
      destruct (parse_row r (S x) y (Some (x, y, d))) as [[cs1 rb1]|] eqn:E; [|discriminate].
      inversion H; subst. constructor; [exact I|eapply IH; eauto].
Qed.

Lemma parse_rows_dig ls : forall w y rb rows rb',
  parse_rows ls w y rb = Some (rows, rb') -> Forall (Forall dig) rows.
Proof.
  induction ls as [|l ls IH]; intros w y rb rows rb' H; cbn [parse_rows] in H.
  - inversion H; subst. constructor.
  - destruct (parse_row (pad_row l w) 0 y rb) as [[row rb1]|] eqn:E1; [|discriminate].
    destruct (parse_rows ls w (S y) rb1) as [[rows1 rb2]|] eqn:E2; [|discriminate].
    inversion H; subst. constructor; [eapply parse_row_dig; eauto|eapply IH; eauto].
Qed.

Lemma area_dig_digits r : Forall (Forall dig) (area r) -> Digits r.
Proof.
  intros HC x y k Hc. rewrite cell_at_a in Hc. unfold cell_a in Hc.
  destruct (nth_error (area r) y) as [row|] eqn:Er; [|discriminate].
  rewrite Forall_forall in HC. specialize (HC row (nth_error_In _ _ Er)).
  rewrite Forall_forall in HC. specialize (HC _ (nth_error_In _ _ Hc)). exact HC.
Qed.

Lemma parse_grid_digits : forall s r, parse_grid s = Some r -> Digits r.
Proof.
  intros s r H. unfold parse_grid in H.
  destruct (parse_rows (lines s) (max_width (lines s)) 0 None) as [[rows rb]|] eqn:E; [|discriminate].
  destruct rb as [[[x y] d]|]; [|discriminate]. inversion H; subst; clear H.
  apply area_dig_digits. cbn [area]. eapply parse_rows_dig; eauto.
Qed.

(** * Steps only turn cells into spaces *)
Lemma update_nth_get {A} (l : list A) n v m d :
  nth_error (update_nth l n v) m = Some d -> d = v \/ nth_error l m = Some d.
Proof.
  revert n m; induction l as [|y l IH]; intros [|n] [|m]; simpl; intro H; auto; try discriminate.
  - left. congruence.
  - eapply IH; eauto.
Qed.

Lemma set_cell_get a x y c x' y' d :
  cell_a (set_cell a x y c) x' y' = Some d -> d = c \/ cell_a a x' y' = Some d.
Proof.
  unfold set_cell, cell_a. destruct (nth_error a y) as [row|] eqn:Er; [|auto].
  destruct (Nat.eq_dec y y') as [<-|Hy].
  - destruct (nth_error (update_nth a y (update_nth row x c)) y) as [row'|] eqn:E; [|discriminate].
    rewrite nth_error_update_nth_eq in E by (apply nth_error_Some; congruence).
    inversion E; subst. rewrite Er. apply update_nth_get.
  - rewrite nth_error_update_nth_neq by assumption. auto.
Qed.

Lemma move_area r r' b : move_forward r = Moved r' b ->
  area r' = area r \/ exists x y, area r' = set_cell (area r) x y Space.
Proof.
  unfold move_forward. destruct (can_move r Forward); [|discriminate].
  match goal with |- context [let '(x, y) := ?e in _] => destruct e as [x y] end.
  destruct (cell_at _ x y) as [[| | |k]|]; try discriminate.
  - destruct (any_cell is_checkpoint (area r)); intros H; inversion H; subst; cbn [area]; eauto.
  - intros H; inversion H; subst; cbn [area]; eauto.
  - destruct (k <=? power r); intros H; inversion H; subst; cbn [area]; eauto.
Qed.

Lemma step_area r c r' shown : step r c = Continue r' shown ->
  area r' = area r \/ exists x y, area r' = set_cell (area r) x y Space.
Proof.
  intros H. destruct c; cbn [step] in H.
  - inversion H; subst. left; reflexivity.
  - inversion H; subst. left; reflexivity.
  - destruct (move_forward r) as [r1 b1| |] eqn:E; try discriminate.
    inversion H; subst. eapply move_area; eauto.
  - destruct (parse_rel direction); inversion H; subst; left; reflexivity.
  - inversion H; subst; left; reflexivity.
  - inversion H; subst; left; reflexivity.
Qed.

Lemma step_digits : forall r c r' shown,
  RInv r -> Digits r -> step r c = Continue r' shown -> Digits r'.
Proof.
  intros r c r' shown _ HD H x y k Hk. rewrite cell_at_a in Hk.
  destruct (step_area _ _ _ _ H) as [Ea|(x0 & y0 & Ea)]; rewrite Ea in Hk.
  - eapply HD. rewrite cell_at_a. exact Hk.
  - apply set_cell_get in Hk as [Hk|Hk]; [discriminate|].
    eapply HD. rewrite cell_at_a. exact Hk.
Qed.

(** * The texts of cells and headings *)
Lemma dec_digit k : 1 <= k <= 9 -> dec k = [48 + k].
Proof.
  intros H.
  assert (k = 1 \/ k = 2 \/ k = 3 \/ k = 4 \/ k = 5 \/ k = 6 \/ k = 7 \/ k = 8 \/ k = 9) as Hk by lia.
  repeat (destruct Hk as [->|Hk]; [reflexivity|]). subst; reflexivity.
Qed.

Lemma ascii_cell_cp k : 1 <= k <= 9 -> ascii_cell (Checkpoint k) = [48 + k; 48 + k].
Proof. intros H. cbn [ascii_cell]. rewrite dec_digit by exact H. reflexivity. Qed.

Lemma ascii_cell_len c : dig c -> length (ascii_cell c) = 2%nat.
Proof. destruct c as [| | |k]; intros H; try reflexivity. rewrite ascii_cell_cp by exact H. reflexivity. Qed.

Lemma ascii_dir_len d : length (ascii_dir d) = 2%nat.
Proof. destruct d; reflexivity. Qed.

Lemma two_inj (a b : N) : [a; a] = [b; b] -> a = b.
Proof. intros H. congruence. Qed.

Lemma ascii_cell_inj c1 c2 : dig c1 -> dig c2 -> ascii_cell c1 = ascii_cell c2 -> c1 = c2.
Proof.
  destruct c1 as [| | |k1], c2 as [| | |k2]; intros H1 H2;
    rewrite ?ascii_cell_cp by assumption; cbn [ascii_cell dig] in *; intros E;
    try reflexivity; try discriminate; apply two_inj in E; try lia.
  f_equal; lia.
Qed.

Lemma ascii_dir_inj d1 d2 : ascii_dir d1 = ascii_dir d2 -> d1 = d2.
Proof. destruct d1, d2; intros E; try reflexivity; discriminate. Qed.

Lemma ascii_dir_cell d c : dig c -> ascii_dir d <> ascii_cell c.
Proof.
  destruct c as [| | |k]; intros H; rewrite ?ascii_cell_cp by assumption;
    destruct d; cbn [ascii_dir ascii_cell dig] in *; intros E; try discriminate; apply two_inj in E; lia.
Qed.

(** * The text of one position *)
Definition ctext (r : robot) (x y : nat) : text :=
  if Nat.eqb x (loc_x r) && Nat.eqb y (loc_y r) then ascii_dir (heading r)
  else match cell_at r x y with Some c => ascii_cell c | None => [] end.

Lemma cell_in_range r x y : RInv r -> (x < width r)%nat -> (y < height r)%nat ->
  exists c, cell_at r x y = Some c.
Proof.
  intros (HL & HF & _) Hx Hy. unfold cell_at.
  destruct (nth_error (area r) y) as [row|] eqn:Er.
  - rewrite Forall_forall in HF. specialize (HF row (nth_error_In _ _ Er)). cbv beta in HF.
    destruct (nth_error row x) as [c|] eqn:Ec; [eauto|].
    apply nth_error_None in Ec. lia.
  - apply nth_error_None in Er. lia.
Qed.

Lemma ctext_shape r x y : RInv r -> Digits r -> (x < width r)%nat -> (y < height r)%nat ->
  (x = loc_x r /\ y = loc_y r /\ ctext r x y = ascii_dir (heading r)) \/
  (~ (x = loc_x r /\ y = loc_y r) /\
   exists c, cell_at r x y = Some c /\ dig c /\ ctext r x y = ascii_cell c).
Proof.
  intros HI HD Hx Hy. unfold ctext.
  destruct (Nat.eqb x (loc_x r) && Nat.eqb y (loc_y r)) eqn:E.
  - apply andb_true_iff in E as [E1 E2]. apply Nat.eqb_eq in E1, E2. left. auto.
  - right. split.
    + intros [-> ->]. rewrite !Nat.eqb_refl in E. discriminate.
    + destruct (cell_in_range r x y HI Hx Hy) as (c & Hc). rewrite Hc.
      exists c. split; [reflexivity|]. split; [|reflexivity].
      destruct c as [| | |k]; cbn [dig]; auto. eapply HD; eauto.
Qed.

Lemma ctext_len r x y : RInv r -> Digits r -> (x < width r)%nat -> (y < height r)%nat ->
  length (ctext r x y) = 2%nat.
Proof.
  intros HI HD Hx Hy.
  destruct (ctext_shape r x y HI HD Hx Hy) as [(_ & _ & ->)|(_ & c & _ & Hd & ->)].
  - apply ascii_dir_len.
  - apply ascii_cell_len; exact Hd.
Qed.

(** * Splitting the rendering *)
Lemma app_eq_len {A} (a a' b b' : list A) :
  length a = length a' -> a ++ b = a' ++ b' -> a = a' /\ b = b'.
Proof.
  revert a'; induction a as [|x a IH]; intros [|x' a'] HL H; simpl in *; try discriminate; auto.
  injection H as -> H. injection HL as HL. destruct (IH _ HL H) as [-> ->]. auto.
Qed.

Notation rcols := (render_cols ascii_dir ascii_cell).
Notation rrows := (render_rows ascii_dir ascii_cell).

Lemma rcols_S r y k x : rcols r y (S k) x = ctext r x y ++ [32] ++ rcols r y k (S x).
Proof. reflexivity. Qed.

Lemma rrows_S r L R k y :
  rrows r L R (S k) y = L ++ rcols r y (width r) 0 ++ R ++ [10] ++ rrows r L R k (S y).
Proof. reflexivity. Qed.

Section Faithful.
  Variables r1 r2 : robot.
  Hypothesis HI1 : RInv r1.
  Hypothesis HI2 : RInv r2.
  Hypothesis HD1 : Digits r1.
  Hypothesis HD2 : Digits r2.
  Hypothesis HW : width r1 = width r2.
  Hypothesis HH : height r1 = height r2.

  Lemma cols_split y : (y < height r1)%nat -> forall n x t1 t2,
    (x + n <= width r1)%nat ->
    rcols r1 y n x ++ t1 = rcols r2 y n x ++ t2 ->
    (forall i, (x <= i < x + n)%nat -> ctext r1 i y = ctext r2 i y) /\ t1 = t2.
  Proof.
    intros Hy. induction n as [|n IH]; intros x t1 t2 Hn H.
    - split; [intros i Hi; lia|exact H].
    - rewrite !rcols_S, <- !app_assoc in H.
      apply app_eq_len in H as [Hc H].
      + cbn [app] in H. injection H as H. apply IH in H as [Hrest Ht]; [|lia].
        split; [|exact Ht]. intros i Hi.
        destruct (Nat.eq_dec i x) as [->|Hne]; [exact Hc|apply Hrest; lia].
      + rewrite !ctext_len; auto; lia.
  Qed.

  Lemma rows_split L R : forall n y t1 t2,
    (y + n <= height r1)%nat ->
    rrows r1 L R n y ++ t1 = rrows r2 L R n y ++ t2 ->
    (forall j, (y <= j < y + n)%nat -> forall i, (i < width r1)%nat -> ctext r1 i j = ctext r2 i j)
    /\ t1 = t2.
  Proof.
    induction n as [|n IH]; intros y t1 t2 Hn H.
    - split; [intros j Hj; lia|exact H].
    - rewrite !rrows_S, <- HW, <- !app_assoc in H.
      apply app_inv_head in H.
      apply cols_split in H as [Hrow H]; [|lia|lia].
      apply app_inv_head in H. cbn [app] in H. injection H as H.
      apply IH in H as [Hrest Ht]; [|lia].
      split; [|exact Ht]. intros j Hj i Hi.
      destruct (Nat.eq_dec j y) as [->|Hne]; [apply Hrow; lia|apply Hrest; lia].
  Qed.

  Lemma render_ctext : render_ascii r1 = render_ascii r2 ->
    forall i j, (i < width r1)%nat -> (j < height r1)%nat -> ctext r1 i j = ctext r2 i j.
  Proof.
    unfold render_ascii. cbv zeta. rewrite <- HW, <- HH. intros H.
    rewrite <- !app_assoc in H. do 3 apply app_inv_head in H.
    apply rows_split in H as [Hall _]; [|lia].
    intros i j Hi Hj. apply Hall; lia.
  Qed.

  Lemma render_faithful_sec : render_ascii r1 = render_ascii r2 ->
    loc_x r1 = loc_x r2 /\ loc_y r1 = loc_y r2 /\ heading r1 = heading r2 /\
    forall x y, (x < width r1)%nat -> (y < height r1)%nat ->
      (x = loc_x r1 /\ y = loc_y r1) \/ cell_at r1 x y = cell_at r2 x y.
  Proof.
    intros H. pose proof (render_ctext H) as HC.
    pose proof HI1 as (_ & _ & Hx1 & Hy1).
    assert (loc_x r1 = loc_x r2 /\ loc_y r1 = loc_y r2 /\ heading r1 = heading r2) as (Ex & Ey & Eh).
    { specialize (HC _ _ Hx1 Hy1).
      destruct (ctext_shape r1 _ _ HI1 HD1 Hx1 Hy1) as [(_ & _ & E1)|(Hne & _)]; [|exfalso; auto].
      destruct (ctext_shape r2 (loc_x r1) (loc_y r1) HI2 HD2) as [(Ex & Ey & E2)|(_ & c & _ & Hd & E2)];
        try lia.
      - split; [exact Ex|]. split; [exact Ey|]. apply ascii_dir_inj. congruence.
      - exfalso. apply (ascii_dir_cell (heading r1) c Hd). congruence. }
    split; [exact Ex|]. split; [exact Ey|]. split; [exact Eh|].
    intros x y Hx Hy. specialize (HC x y Hx Hy).
    destruct (ctext_shape r1 x y HI1 HD1 Hx Hy) as [(Ex1 & Ey1 & _)|(Hne & c1 & Hc1 & Hd1 & E1)]; [left; auto|].
    right.
    destruct (ctext_shape r2 x y HI2 HD2) as [(Ex2 & Ey2 & _)|(_ & c2 & Hc2 & Hd2 & E2)]; try lia.
    rewrite Hc1, Hc2. f_equal. apply ascii_cell_inj; auto. congruence.
  Qed.
End Faithful.

Lemma render_faithful : forall r1 r2,
  RInv r1 -> RInv r2 -> Digits r1 -> Digits r2 ->
  width r1 = width r2 -> height r1 = height r2 ->
  render_ascii r1 = render_ascii r2 ->
  loc_x r1 = loc_x r2 /\ loc_y r1 = loc_y r2 /\ heading r1 = heading r2 /\
  forall x y, (x < width r1)%nat -> (y < height r1)%nat ->
    (x = loc_x r1 /\ y = loc_y r1) \/ cell_at r1 x y = cell_at r2 x y.
Proof. exact render_faithful_sec. Qed.
