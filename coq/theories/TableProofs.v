(** TableProofs: the tables regenerated from parser.rs / token.rs are the reference tables
    (finite facts, decided by computation in the kernel). *)
From Aplang Require Import Base FloatX Token Ast Tables LexSpec.
From Aplang.Gen Require Import Generated.
Open Scope N_scope.

(** the documented ladder: assignment < OR < AND < == != < comparisons < + - < * / MOD < unary < postfix;
    binary operators group to the left (the operand inside the loop is parsed one rung up), except
    that the parser right-nests AND chains (DESIGN.md 1.2: behaviourally invisible, see C05) *)
Definition reference_ladder : list (level * rung) :=
  [(LvOr, mkRung [TOr] LvAnd LvAnd (MkLog LOr));
   (LvAnd, mkRung [TAnd] LvEquality LvAnd (MkLog LAnd));
   (LvEquality, mkRung [TBangEqual; TEqualEqual] LvComparison LvComparison MkBin);
   (LvComparison, mkRung [TGreater; TGreaterEqual; TLess; TLessEqual] LvAddition LvAddition MkBin);
   (LvAddition, mkRung [TPlus; TMinus] LvMultiplication LvMultiplication MkBin);
   (LvMultiplication, mkRung [TStar; TSlash; TMod] LvUnary LvUnary MkBin)].

Definition reference_binop_of_token : list (tk * binop) :=
  [(TEqualEqual, BEqualEqual); (TBangEqual, BNotEqual); (TLess, BLess); (TLessEqual, BLessEqual);
   (TGreater, BGreater); (TGreaterEqual, BGreaterEqual); (TPlus, BPlus); (TMinus, BMinus);
   (TStar, BStar); (TSlash, BSlash); (TMod, BModulo)].

Lemma ladder_is_reference : ladder = reference_ladder.
Proof. reflexivity. Qed.

Lemma unary_is_reference :
  unary_ops = [TNot; TMinus] /\ unary_operand = LvUnary /\ unary_else = LvAccess /\
  unop_of_token = [(TMinus, UMinus); (TNot, UNot)].
Proof. repeat split; reflexivity. Qed.

Lemma entry_points_are_reference :
  expression_entry = LvAssignment /\ assignment_first = LvOr /\ assignment_value = LvAssignment /\ access_first = LvPrimary.
Proof. repeat split; reflexivity. Qed.

Lemma binop_of_token_is_reference : binop_of_token = reference_binop_of_token.
Proof. reflexivity. Qed.

(** keywords: every spelling in the table has both its lower-case and its UPPER-case sibling *)
Definition lower_ascii (c : N) : N := if (65 <=? c) && (c <=? 90) then c + 32 else c.

Definition both_cases_b : bool :=
  forallb (fun p => match assoc_text (map upper_ascii (fst p)) keywords, assoc_text (map lower_ascii (fst p)) keywords with
                    | Some k1, Some k2 => tk_eqb k1 (snd p) && tk_eqb k2 (snd p)
                    | _, _ => false
                    end) keywords.

Lemma keywords_both_cases : forall w k, In (w, k) keywords ->
  assoc_text (map upper_ascii w) keywords = Some k /\ assoc_text (map lower_ascii w) keywords = Some k.
Proof.
  assert (H : both_cases_b = true) by (vm_compute; reflexivity).
  unfold both_cases_b in H. rewrite forallb_forall in H.
  intros w k Hin. specialize (H _ Hin). cbn [fst snd] in H.
  destruct (assoc_text (map upper_ascii w) keywords) as [k1|]; [|discriminate].
  destruct (assoc_text (map lower_ascii w) keywords) as [k2|]; [|discriminate].
  apply andb_true_iff in H as [H1 H2]. apply tk_eqb_eq in H1, H2. subst. split; reflexivity.
Qed.

(* 22 keywords, two spellings each *)
Lemma keywords_count : length keywords = 44%nat /\ length ref_keyword_names = 22%nat.
Proof. split; reflexivity. Qed.

(** the synchronisation set is non-empty and the recovery advances before it looks *)
Lemma sync_is_reference :
  sync_advances_first = true /\
  sync_set = [TProcedure; TRepeat; TFor; TIf; TReturn; TContinue; TBreak; TImport; TExport].
Proof. split; reflexivity. Qed.
