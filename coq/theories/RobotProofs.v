(** RobotProofs: proofs about the grid-world robot model of Robot.v, used by Props/C17.v *)
From Aplang Require Import Base Robot.
From Coq Require Import ZifyBool.
Open Scope N_scope.

(** * Definitions mirrored by Props/C17.v *)
Definition Inv (r : robot) : Prop :=
  length (area r) = height r /\
  Forall (fun row => length row = width r) (area r) /\
  (loc_x r < width r)%nat /\ (loc_y r < height r)%nat /\
  exists c, cell_at r (loc_x r) (loc_y r) = Some c /\ c <> Wall.

Definition neighbour (r : robot) (rl : rel) : Z * Z :=
  let y := Z.of_nat (loc_y r) in let x := Z.of_nat (loc_x r) in
  match ((dir_num (heading r) + rel_num rl) mod 4)%Z with
  | 0 => (y - 1, x) | 1 => (y, x + 1) | 2 => (y + 1, x) | _ => (y, x - 1)
  end%Z.

Definition CpInv (r : robot) : Prop :=
  forall x y k, cell_at r x y = Some (Checkpoint k) -> (power r <= k)%N.

(** * Areas *)
Definition cell_a (a : list (list cell)) (x y : nat) : option cell :=
  match nth_error a y with None => None | Some row => nth_error row x end.

Lemma cell_at_a r x y : cell_at r x y = cell_a (area r) x y.
Proof. reflexivity. Qed.

Lemma Forall_update_nth {A} (P : A -> Prop) l n v :
  Forall P l -> P v -> Forall P (update_nth l n v).
Proof.
  intros HF Hv. revert n. induction HF as [|y l Hy HF IH]; intros [|n]; simpl; auto.
Qed.

Lemma set_cell_length a x y c : length (set_cell a x y c) = length a.
Proof.
  unfold set_cell. destruct (nth_error a y); auto. apply update_nth_length.
Qed.

Lemma set_cell_rect a x y c w :
  Forall (fun row => length row = w) a -> Forall (fun row => length row = w) (set_cell a x y c).
Proof.
  intros HF. unfold set_cell. destruct (nth_error a y) as [row|] eqn:Er; auto.
  apply Forall_update_nth; auto. rewrite update_nth_length.
  rewrite Forall_forall in HF. apply HF. eapply nth_error_In; eauto.
Qed.

Lemma set_cell_same a x y c c0 :
  cell_a a x y = Some c0 -> cell_a (set_cell a x y c) x y = Some c.
Proof.
  unfold cell_a, set_cell. destruct (nth_error a y) as [row|] eqn:Er; [|discriminate].
  intros Hc. rewrite nth_error_update_nth_eq by (apply nth_error_Some; congruence).
  apply nth_error_update_nth_eq. apply nth_error_Some. congruence.
Qed.

Lemma set_cell_other a x y c x' y' :
  x' <> x \/ y' <> y -> cell_a (set_cell a x y c) x' y' = cell_a a x' y'.
Proof.
  intros Hne. unfold cell_a, set_cell. destruct (nth_error a y) as [row|] eqn:Er; [|reflexivity].
  destruct (Nat.eq_dec y y') as [<-|Hy].
  - rewrite nth_error_update_nth_eq by (apply nth_error_Some; congruence). rewrite Er.
    apply nth_error_update_nth_neq. intros ->. destruct Hne; congruence.
  - rewrite nth_error_update_nth_neq by assumption. reflexivity.
Qed.

Lemma any_cell_false p a x y c :
  any_cell p a = false -> cell_a a x y = Some c -> p c = false.
Proof.
  intros Hf Hc. unfold cell_a in Hc. destruct (nth_error a y) as [row|] eqn:Er; [|discriminate].
  destruct (p c) eqn:Ep; auto.
  assert (any_cell p a = true) as Ht; [|congruence].
  apply existsb_exists. exists row. split; [eapply nth_error_In; eauto|].
  apply existsb_exists. exists c. split; [eapply nth_error_In; eauto|auto].
Qed.

Lemma cell_a_bounds a w x y c :
  Forall (fun row => length row = w) a -> cell_a a x y = Some c ->
  (y < length a)%nat /\ (x < w)%nat.
Proof.
  intros HF Hc. unfold cell_a in Hc. destruct (nth_error a y) as [row|] eqn:Er; [|discriminate].
  split; [apply nth_error_Some; congruence|].
  rewrite Forall_forall in HF. rewrite <- (HF row) by (eapply nth_error_In; eauto).
  apply nth_error_Some. congruence.
Qed.

(** * Parser: shape *)
Definition cpok (c : cell) : Prop := match c with Checkpoint k => 1 <= k | _ => True end.

Lemma classify_cpok ch c : classify ch = SCell c -> cpok c.
Proof.
  unfold classify.
  repeat match goal with |- context [if ?b then _ else _] => destruct b eqn:? end;
    intros H; inversion H; subst; simpl; auto.
  match goal with
  | Ha : (48 <=? ch) && (ch <=? 57) = true, Hb : (ch =? 48) = false |- _ =>
    apply andb_true_iff in Ha as [H1 H2]; apply N.leb_le in H1; apply N.eqb_neq in Hb; lia
  end.
Qed.

Lemma parse_row_spec chars : forall x y rb cs rb',
  parse_row chars x y rb = Some (cs, rb') ->
  length cs = length chars /\ Forall cpok cs /\
  (rb' = rb \/ exists i d, rb' = Some ((x + i)%nat, y, d) /\ nth_error cs i = Some Space).
Proof.
  induction chars as [|ch r IH]; intros x y rb cs rb' H; cbn [parse_row] in H.
  - inversion H; subst. auto.
  - destruct (classify ch) as [c|d|] eqn:EC; [| |discriminate].
    + destruct (parse_row r (S x) y rb) as [[cs1 rb1]|] eqn:E; [|discriminate].
      inversion H; subst. apply IH in E as (HL & HF & HR).
      split; [simpl; lia|]. split; [constructor; eauto using classify_cpok|].
      destruct HR as [->|(i & d & -> & Hi)]; auto.
      right. exists (S i), d. split; [rewrite Nat.add_succ_r; reflexivity|exact Hi].
    + destruct rb as [?|]; [discriminate|].
      destruct (parse_row r (S x) y (Some (x, y, d))) as [[cs1 rb1]|] eqn:E; [|discriminate].
      inversion H; subst. apply IH in E as (HL & HF & HR).
      split; [simpl; lia|]. split; [constructor; simpl; auto|].
      right. destruct HR as [->|(i & d' & -> & Hi)].
      * exists 0%nat, d. split; [rewrite Nat.add_0_r; reflexivity|reflexivity].
      * exists (S i), d'. split; [rewrite Nat.add_succ_r; reflexivity|exact Hi].
Qed.

Lemma repeat_text_length c n : length (repeat_text c n) = n.
Proof. induction n; simpl; auto. Qed.

Lemma pad_row_length l w : (length l <= w)%nat -> length (pad_row l w) = w.
Proof. intros H. unfold pad_row. rewrite app_length, repeat_text_length. lia. Qed.

Lemma parse_rows_spec ls : forall w y rb rows rb',
  (forall l, In l ls -> (length l <= w)%nat) ->
  parse_rows ls w y rb = Some (rows, rb') ->
  length rows = length ls /\ Forall (fun row => length row = w) rows /\
  Forall (Forall cpok) rows /\
  (rb' = rb \/ exists j x d row, rb' = Some (x, (y + j)%nat, d) /\
      nth_error rows j = Some row /\ nth_error row x = Some Space).
Proof.
  induction ls as [|l ls IH]; intros w y rb rows rb' Hw H; cbn [parse_rows] in H.
  - inversion H; subst. auto.
  - destruct (parse_row (pad_row l w) 0 y rb) as [[row rb1]|] eqn:E1; [|discriminate].
    destruct (parse_rows ls w (S y) rb1) as [[rows1 rb2]|] eqn:E2; [|discriminate].
    inversion H; subst.
    apply parse_row_spec in E1 as (HL1 & HF1 & HR1).
    apply IH in E2 as (HL2 & HF2 & HC2 & HR2); [|intros l' Hl'; apply Hw; right; exact Hl'].
    rewrite pad_row_length in HL1 by (apply Hw; left; reflexivity).
    split; [simpl; lia|]. split; [constructor; auto|]. split; [constructor; auto|].
    destruct HR2 as [->|(j & x & d & row' & -> & Hj & Hx)].
    + destruct HR1 as [->|(i & d & -> & Hi)]; auto.
      right. exists 0%nat, i, d, row. split; [rewrite Nat.add_0_r; reflexivity|]. split; [reflexivity|exact Hi].
    + right. exists (S j), x, d, row'. split; [rewrite Nat.add_succ_r; reflexivity|]. split; [exact Hj|exact Hx].
Qed.

Lemma byte_len_ge l : (length l <= N.to_nat (byte_len l))%nat.
Proof.
  induction l as [|c l IH]; cbn [byte_len length]; [lia|].
  unfold utf8_len. destruct (c <? 128); [|destruct (c <? 2048); [|destruct (c <? 65536)]]; lia.
Qed.

Lemma max_width_ge ls l : In l ls -> (length l <= max_width ls)%nat.
Proof.
  induction ls as [|l0 ls IH]; intros HI; [destruct HI|].
  unfold max_width in *. cbn [fold_right]. destruct HI as [->|HI].
  - pose proof (byte_len_ge l). lia.
  - apply IH in HI. lia.
Qed.

Lemma parse_grid_shape s r : parse_grid s = Some r ->
  Inv r /\ cell_at r (loc_x r) (loc_y r) = Some Space /\ power r = 1 /\
  Forall (Forall cpok) (area r).
Proof.
  unfold parse_grid. intros H.
  destruct (parse_rows (lines s) (max_width (lines s)) 0 None) as [[rows rb]|] eqn:E; [|discriminate].
  destruct rb as [[[x y] d]|]; [|discriminate]. inversion H; subst; clear H.
  apply parse_rows_spec in E as (HL & HF & HC & HR); [|apply max_width_ge].
  destruct HR as [HR|(j & x' & d' & row & HR & Hj & Hx)]; [discriminate|].
  inversion HR; subst; clear HR. cbn [Nat.add] in *.
  assert (cell_a rows x' j = Some Space) as Hcell by (unfold cell_a; rewrite Hj; exact Hx).
  destruct (cell_a_bounds _ _ _ _ _ HF Hcell) as [Hy Hxw].
  unfold Inv. cbn [area width height loc_x loc_y power]. rewrite cell_at_a. cbn [area].
  split; [|auto].
  split; [exact HL|]. split; [exact HF|]. split; [exact Hxw|]. split; [exact (eq_ind _ (fun n => (j < n)%nat) Hy _ HL)|].
  exists Space. split; [exact Hcell|discriminate].
Qed.

Lemma parse_grid_inv : forall s r, parse_grid s = Some r -> Inv r.
Proof. intros s r H. apply parse_grid_shape in H. tauto. Qed.

Lemma parse_cp_inv : forall s r, parse_grid s = Some r -> CpInv r.
Proof.
  intros s r H. apply parse_grid_shape in H as (_ & _ & HP & HC).
  intros x y k Hc. rewrite HP. rewrite cell_at_a in Hc. unfold cell_a in Hc.
  destruct (nth_error (area r) y) as [row|] eqn:Er; [|discriminate].
  rewrite Forall_forall in HC. specialize (HC row (nth_error_In _ _ Er)).
  rewrite Forall_forall in HC. specialize (HC _ (nth_error_In _ _ Hc)). exact HC.
Qed.

(** * Rotation *)
Lemma rotate_keeps_position : forall r z,
  loc_x (rotate r z) = loc_x r /\ loc_y (rotate r z) = loc_y r /\ area (rotate r z) = area r /\
  power (rotate r z) = power r /\
  dir_num (heading (rotate r z)) = ((dir_num (heading r) + z) mod 4)%Z.
Proof.
  intros r z. repeat split. cbn [rotate heading]. unfold dir_of_Z.
  pose proof (Z.mod_pos_bound (dir_num (heading r) + z) 4 ltac:(lia)) as Hb.
  destruct ((dir_num (heading r) + z) mod 4)%Z as [|p|p]; try reflexivity; [|lia].
  destruct p as [[?|?|]|[?|?|]|]; try reflexivity; lia.
Qed.

Lemma rotate_inv r z : Inv r -> Inv (rotate r z).
Proof. intros H. exact H. Qed.

(** * CAN_MOVE *)
Lemma check_pos_neighbour r rl : check_pos r rl = neighbour r rl.
Proof.
  unfold check_pos, neighbour, dir_of_Z.
  destruct ((dir_num (heading r) + rel_num rl) mod 4)%Z as [|p|p]; try reflexivity.
  destruct p as [[?|?|]|[?|?|]|]; reflexivity.
Qed.

Lemma can_move_at r rl y x : Inv r -> check_pos r rl = (y, x) ->
  (can_move r rl = true <->
   (0 <= y < Z.of_nat (height r))%Z /\ (0 <= x < Z.of_nat (width r))%Z /\
   exists c, cell_at r (Z.to_nat x) (Z.to_nat y) = Some c /\ c <> Wall).
Proof.
  intros (HL & HF & _) E. unfold can_move. rewrite E. cbn [fst snd]. unfold lex_neg, get_z.
  rewrite cell_at_a. unfold cell_a. split.
  - intros H.
    destruct ((y <? 0) || (y =? 0) && (x <? 0))%Z eqn:EL; [discriminate|].
    destruct (y <? 0)%Z eqn:Ey; [discriminate|].
    destruct (nth_error (area r) (Z.to_nat y)) as [row|] eqn:Er; [|discriminate].
    destruct (x <? 0)%Z eqn:Ex; [discriminate|].
    destruct (nth_error row (Z.to_nat x)) as [c|] eqn:Ec; [|discriminate].
    assert (cell_a (area r) (Z.to_nat x) (Z.to_nat y) = Some c) as Hc
      by (unfold cell_a; rewrite Er; exact Ec).
    destruct (cell_a_bounds _ _ _ _ _ HF Hc) as [Hy Hx].
    apply Z.ltb_ge in Ey, Ex.
    split; [lia|]. split; [lia|]. exists c. split; [reflexivity|].
    intros ->. discriminate.
  - intros (Hy & Hx & c & Hc & Hw).
    destruct (y <? 0)%Z eqn:Ey; [apply Z.ltb_lt in Ey; lia|].
    destruct (x <? 0)%Z eqn:Ex; [apply Z.ltb_lt in Ex; lia|].
    rewrite andb_false_r. cbn [orb].
    destruct (nth_error (area r) (Z.to_nat y)) as [row|]; [|discriminate].
    rewrite Hc. destruct c; try reflexivity. congruence.
Qed.

Lemma can_move_iff : forall r rl, Inv r ->
  (can_move r rl = true <->
   let '(y, x) := neighbour r rl in
   (0 <= y < Z.of_nat (height r))%Z /\ (0 <= x < Z.of_nat (width r))%Z /\
   exists c, cell_at r (Z.to_nat x) (Z.to_nat y) = Some c /\ c <> Wall).
Proof.
  intros r rl HI. rewrite <- check_pos_neighbour.
  destruct (check_pos r rl) as [y x] eqn:E. apply can_move_at; auto.
Qed.

(** * MOVE_FORWARD *)
Definition target (r : robot) : nat * nat :=
  match heading r with
  | North => (loc_x r, (loc_y r - 1)%nat)
  | East => (S (loc_x r), loc_y r)
  | South => (loc_x r, S (loc_y r))
  | West => ((loc_x r - 1)%nat, loc_y r)
  end.

Lemma neighbour_fwd r : neighbour r Forward =
  (let y := Z.of_nat (loc_y r) in let x := Z.of_nat (loc_x r) in
   match heading r with
   | North => (y - 1, x) | East => (y, x + 1) | South => (y + 1, x) | West => (y, x - 1)
   end)%Z.
Proof. unfold neighbour. destruct (heading r); reflexivity. Qed.

Lemma target_spec r x y : Inv r -> can_move r Forward = true -> target r = (x, y) ->
  (Z.of_nat y, Z.of_nat x) = neighbour r Forward /\ (x < width r)%nat /\ (y < height r)%nat /\
  exists c, cell_at r x y = Some c /\ c <> Wall.
Proof.
  intros HI HC HT. apply (can_move_iff r Forward HI) in HC.
  rewrite neighbour_fwd in *. unfold target in HT. cbv zeta in *.
  destruct (heading r); inversion HT; subst; clear HT;
    destruct HC as (Hy & Hx & c & Hc & Hw).
  - replace (Z.to_nat (Z.of_nat (loc_y r) - 1)) with (loc_y r - 1)%nat in Hc by lia.
    rewrite Nat2Z.id in Hc.
    split; [f_equal; lia|]. split; [lia|]. split; [lia|]. eauto.
  - replace (Z.to_nat (Z.of_nat (loc_x r) + 1)) with (S (loc_x r)) in Hc by lia.
    rewrite Nat2Z.id in Hc.
    split; [f_equal; lia|]. split; [lia|]. split; [lia|]. eauto.
  - replace (Z.to_nat (Z.of_nat (loc_y r) + 1)) with (S (loc_y r)) in Hc by lia.
    rewrite Nat2Z.id in Hc.
    split; [f_equal; lia|]. split; [lia|]. split; [lia|]. eauto.
  - replace (Z.to_nat (Z.of_nat (loc_x r) - 1)) with (loc_x r - 1)%nat in Hc by lia.
    rewrite Nat2Z.id in Hc.
    split; [f_equal; lia|]. split; [lia|]. split; [lia|]. eauto.
Qed.

Definition cp_le (p : N) (c : cell) : bool :=
  match c with Checkpoint q => q <=? p | _ => false end.

Lemma move_forward_at r x y : target r = (x, y) -> can_move r Forward = true ->
  move_forward r =
    let r1 := mkRobot (area r) (width r) (height r) x y (heading r) (power r) in
    match cell_at r x y with
    | None => MovedIntoWall
    | Some Goal =>
      if any_cell is_checkpoint (area r) then Moved r1 false
      else Moved (mkRobot (set_cell (area r) x y Space) (width r) (height r) x y (heading r) (power r)) true
    | Some (Checkpoint order) =>
      if order <=? power r then
        let a' := set_cell (area r) x y Space in
        let remaining := any_cell (cp_le (power r)) a' in
        Moved (mkRobot a' (width r) (height r) x y (heading r) (if remaining then power r else power r + 1)) false
      else Moved r1 false
    | Some Space => Moved r1 false
    | Some Wall => MovedIntoWall
    end.
Proof.
  intros ET EC. unfold move_forward. rewrite EC. fold (target r). rewrite ET. reflexivity.
Qed.

(* the complete case analysis of a successful move *)
Lemma move_forward_cases r r' b : Inv r -> move_forward r = Moved r' b ->
  exists x y c, can_move r Forward = true /\
    (Z.of_nat y, Z.of_nat x) = neighbour r Forward /\ (x < width r)%nat /\ (y < height r)%nat /\
    cell_at r x y = Some c /\ c <> Wall /\
    loc_x r' = x /\ loc_y r' = y /\ heading r' = heading r /\ width r' = width r /\
    height r' = height r /\
    ((area r' = area r /\ power r' = power r /\ b = false) \/
     (c = Goal /\ any_cell is_checkpoint (area r) = false /\
      area r' = set_cell (area r) x y Space /\ power r' = power r /\ b = true) \/
     (exists k, c = Checkpoint k /\ (k <=? power r) = true /\
      area r' = set_cell (area r) x y Space /\ b = false /\
      power r' = if any_cell (cp_le (power r)) (set_cell (area r) x y Space)
                 then power r else power r + 1)).
Proof.
  intros HI H.
  destruct (can_move r Forward) eqn:EC; [|unfold move_forward in H; rewrite EC in H; discriminate].
  destruct (target r) as [x y] eqn:ET.
  destruct (target_spec r x y HI EC ET) as (Hn & Hx & Hy & c & Hc & Hw).
  rewrite (move_forward_at r x y ET EC), Hc in H. cbv zeta in H.
  exists x, y, c. repeat (split; [first [assumption|reflexivity]|]).
  destruct c as [| | |k]; [congruence| | |].
  - destruct (any_cell is_checkpoint (area r)) eqn:EA; inversion H; subst; clear H;
      cbn [loc_x loc_y heading width height area power]; repeat (split; [reflexivity|]).
    + left. auto.
    + right. left. auto.
  - inversion H; subst; clear H.
    cbn [loc_x loc_y heading width height area power]; repeat (split; [reflexivity|]). left. auto.
  - destruct (k <=? power r) eqn:EK; inversion H; subst; clear H;
      cbn [loc_x loc_y heading width height area power]; repeat (split; [reflexivity|]).
    + right. right. exists k. auto.
    + left. auto.
Qed.

Lemma move_no_bug r : Inv r -> move_forward r <> MovedIntoWall.
Proof.
  intros HI.
  destruct (can_move r Forward) eqn:EC; [|unfold move_forward; rewrite EC; discriminate].
  destruct (target r) as [x y] eqn:ET.
  destruct (target_spec r x y HI EC ET) as (Hn & Hx & Hy & c & Hc & Hw).
  rewrite (move_forward_at r x y ET EC), Hc. cbv zeta.
  destruct c as [| | |k]; [congruence| | |].
  - destruct (any_cell is_checkpoint (area r)); discriminate.
  - discriminate.
  - destruct (k <=? power r); discriminate.
Qed.

Lemma move_inv r r' b : Inv r -> move_forward r = Moved r' b -> Inv r'.
Proof.
  intros HI H. pose proof HI as (HL & HF & _).
  destruct (move_forward_cases r r' b HI H)
    as (x & y & c & EC & Hn & Hx & Hy & Hc & Hw & Elx & Ely & Eh & Ew & Eht & Hcases).
  unfold Inv. rewrite Elx, Ely, Ew, Eht, cell_at_a. rewrite cell_at_a in Hc.
  assert (exists c0, cell_a (set_cell (area r) x y Space) x y = Some c0 /\ c0 <> Wall) as HS.
  { exists Space. split; [eapply set_cell_same; eauto|discriminate]. }
  destruct Hcases as [(Ea & _)|[(_ & _ & Ea & _)|(k & _ & _ & Ea & _)]]; rewrite Ea.
  - repeat (split; [assumption|]). eauto.
  - rewrite set_cell_length. repeat split; auto using set_cell_rect.
  - rewrite set_cell_length. repeat split; auto using set_cell_rect.
Qed.

Lemma move_advances_one : forall r r' b, Inv r -> move_forward r = Moved r' b ->
  can_move r Forward = true /\
  (Z.of_nat (loc_y r'), Z.of_nat (loc_x r')) = neighbour r Forward /\
  heading r' = heading r /\ width r' = width r /\ height r' = height r.
Proof.
  intros r r' b HI H.
  destruct (move_forward_cases r r' b HI H)
    as (x & y & c & EC & Hn & Hx & Hy & Hc & Hw & Elx & Ely & Eh & Ew & Eht & Hcases).
  rewrite Elx, Ely. auto.
Qed.

Lemma blocked_move_exits : forall r, can_move r Forward = false -> step r CMove = Exit.
Proof. intros r H. cbn [step]. unfold move_forward. rewrite H. reflexivity. Qed.

Lemma true_only_at_goal : forall r r', Inv r -> move_forward r = Moved r' true ->
  cell_at r (loc_x r') (loc_y r') = Some Goal /\ any_cell is_checkpoint (area r) = false.
Proof.
  intros r r' HI H.
  destruct (move_forward_cases r r' true HI H)
    as (x & y & c & EC & Hn & Hx & Hy & Hc & Hw & Elx & Ely & Eh & Ew & Eht & Hcases).
  rewrite Elx, Ely.
  destruct Hcases as [(_ & _ & Eb)|[(-> & Ha & _)|(k & _ & _ & _ & Eb & _)]];
    try discriminate. auto.
Qed.

Lemma move_frame : forall r r' b x y, Inv r -> move_forward r = Moved r' b ->
  (x <> loc_x r' \/ y <> loc_y r') -> cell_at r' x y = cell_at r x y.
Proof.
  intros r r' b x y HI H Hne.
  destruct (move_forward_cases r r' b HI H)
    as (x0 & y0 & c & EC & Hn & Hx & Hy & Hc & Hw & Elx & Ely & Eh & Ew & Eht & Hcases).
  rewrite Elx, Ely in Hne. rewrite !cell_at_a.
  destruct Hcases as [(Ea & _)|[(_ & _ & Ea & _)|(k & _ & _ & Ea & _)]]; rewrite Ea;
    auto using set_cell_other.
Qed.

Lemma move_cp_inv : forall r r' b, Inv r -> CpInv r -> move_forward r = Moved r' b -> CpInv r'.
Proof.
  intros r r' b HI HCP H.
  destruct (move_forward_cases r r' b HI H)
    as (x0 & y0 & c & EC & Hn & Hx & Hy & Hc & Hw & Elx & Ely & Eh & Ew & Eht & Hcases).
  intros x y k Hk. rewrite cell_at_a in Hk, Hc.
  destruct Hcases as [(Ea & Ep & _)|[(_ & _ & Ea & Ep & _)|(k0 & _ & _ & Ea & _ & Ep)]].
  - rewrite Ea in Hk. rewrite Ep. eapply HCP. rewrite cell_at_a. eauto.
  - rewrite Ea in Hk. rewrite Ep.
    destruct (Nat.eq_dec x x0) as [->|Hxx]; [destruct (Nat.eq_dec y y0) as [->|Hyy]|].
    + erewrite set_cell_same in Hk by eauto. discriminate.
    + rewrite set_cell_other in Hk by auto. eapply HCP. rewrite cell_at_a. eauto.
    + rewrite set_cell_other in Hk by auto. eapply HCP. rewrite cell_at_a. eauto.
  - rewrite Ea in Hk.
    assert (power r <= k) as Hle.
    { destruct (Nat.eq_dec x x0) as [->|Hxx]; [destruct (Nat.eq_dec y y0) as [->|Hyy]|].
      + erewrite set_cell_same in Hk by eauto. discriminate.
      + rewrite set_cell_other in Hk by auto. eapply HCP. rewrite cell_at_a. eauto.
      + rewrite set_cell_other in Hk by auto. eapply HCP. rewrite cell_at_a. eauto. }
    rewrite Ep.
    destruct (any_cell (cp_le (power r)) (set_cell (area r) x0 y0 Space)) eqn:EA; [exact Hle|].
    pose proof (any_cell_false _ _ _ _ _ EA Hk) as Hf. cbn [cp_le] in Hf.
    apply N.leb_gt in Hf. lia.
Qed.

Lemma checkpoints_in_order : forall r r' b x y k, Inv r -> CpInv r ->
  move_forward r = Moved r' b ->
  cell_at r x y = Some (Checkpoint k) -> cell_at r' x y <> Some (Checkpoint k) ->
  x = loc_x r' /\ y = loc_y r' /\ k = power r /\
  forall x2 y2 k2, cell_at r x2 y2 = Some (Checkpoint k2) -> (k <= k2)%N.
Proof.
  intros r r' b x y k HI HCP H Hk Hk'.
  destruct (move_forward_cases r r' b HI H)
    as (x0 & y0 & c & EC & Hn & Hx & Hy & Hc & Hw & Elx & Ely & Eh & Ew & Eht & Hcases).
  rewrite Elx, Ely. rewrite cell_at_a in Hk', Hc.
  assert (area r' = set_cell (area r) x0 y0 Space -> x = x0 /\ y = y0) as Hpos.
  { intros Ea. rewrite Ea in Hk'.
    destruct (Nat.eq_dec x x0) as [->|Hxx]; [destruct (Nat.eq_dec y y0) as [->|Hyy]|]; auto;
      exfalso; apply Hk'; rewrite set_cell_other by auto; exact Hk. }
  destruct Hcases as [(Ea & _)|[(-> & _ & Ea & _)|(k0 & -> & Ek0 & Ea & _)]].
  - exfalso. apply Hk'. rewrite Ea. exact Hk.
  - destruct (Hpos Ea) as [-> ->]. rewrite cell_at_a in Hk. congruence.
  - destruct (Hpos Ea) as [-> ->]. rewrite cell_at_a in Hk.
    assert (k0 = k) as -> by congruence.
    pose proof (HCP x0 y0 k) as Hp. rewrite cell_at_a in Hp. specialize (Hp Hc).
    apply N.leb_le in Ek0. assert (k = power r) as Ekp by lia.
    repeat split; auto. intros x2 y2 k2 H2. rewrite Ekp. eapply HCP; eauto.
Qed.

(** * Steps and histories *)
Lemma step_inv : forall r c r' shown, Inv r -> step r c = Continue r' shown -> Inv r'.
Proof.
  intros r c r' shown HI H. destruct c; cbn [step] in H.
  - inversion H; subst. apply rotate_inv; exact HI.
  - inversion H; subst. apply rotate_inv; exact HI.
  - destruct (move_forward r) as [r1 b1| |] eqn:E; try discriminate.
    inversion H; subst. eapply move_inv; eauto.
  - destruct (parse_rel direction); inversion H; subst; exact HI.
  - inversion H; subst; exact HI.
  - inversion H; subst; exact HI.
Qed.

Lemma history_inv : forall cs r r', Inv r -> final_robot r cs = Some r' -> Inv r'.
Proof.
  induction cs as [|c cs IH]; intros r r' HI H; cbn [final_robot] in H.
  - inversion H; subst; exact HI.
  - destruct (step r c) as [r1 sh| |] eqn:E; try discriminate.
    eapply IH; [eapply step_inv; eauto|exact H].
Qed.

Lemma step_no_bug : forall r c, Inv r -> step r c <> Bug.
Proof.
  intros r c HI. destruct c; cbn [step]; try discriminate.
  - pose proof (move_no_bug r HI) as Hn.
    destruct (move_forward r); try discriminate. congruence.
  - destruct (parse_rel direction); discriminate.
Qed.

(** * Malformed grids *)
Definition cnt (p : N -> bool) (l : text) : nat := length (filter p l).

Lemma cnt_cons p c l : cnt p (c :: l) = if p c then S (cnt p l) else cnt p l.
Proof. unfold cnt. cbn [filter]. destruct (p c); reflexivity. Qed.

Lemma cnt_app p l1 l2 : cnt p (l1 ++ l2) = (cnt p l1 + cnt p l2)%nat.
Proof. unfold cnt. rewrite filter_app, app_length. reflexivity. Qed.

Lemma cnt_rev p l : cnt p (rev l) = cnt p l.
Proof.
  induction l as [|c l IH]; [reflexivity|].
  cbn [rev]. rewrite cnt_app, IH, !cnt_cons. change (cnt p []) with 0%nat.
  destruct (p c); lia.
Qed.

Lemma cnt_pos p c l : In c l -> p c = true -> (0 < cnt p l)%nat.
Proof.
  intros HI Hp. unfold cnt.
  assert (In c (filter p l)) as HF by (apply filter_In; auto).
  destruct (filter p l); [destruct HF|simpl; lia].
Qed.

Lemma cnt_pos_in p l : (0 < cnt p l)%nat -> exists c, In c l /\ p c = true.
Proof.
  unfold cnt. intros H. destruct (filter p l) as [|c f] eqn:E; [simpl in H; lia|].
  exists c. apply filter_In. rewrite E. left. reflexivity.
Qed.

Lemma cnt_repeat32 p n : p 32 = false -> cnt p (repeat_text 32 n) = 0%nat.
Proof. intros H. induction n; cbn [repeat_text]; [reflexivity|]. rewrite cnt_cons, H. exact IHn. Qed.

Lemma cnt_pad p l w : p 32 = false -> cnt p (pad_row l w) = cnt p l.
Proof. intros H. unfold pad_row. rewrite cnt_app, cnt_repeat32 by exact H. lia. Qed.

(* the line ended by "\n": the current line, minus a trailing "\r" *)
Lemma strip_cr cur : exists cur2,
  (match cur with 13 :: cur' => rev cur' | _ => rev cur end) = rev cur2 /\
  (cur2 = cur \/ cur = 13 :: cur2).
Proof.
  destruct cur as [|c cur']; [exists []; auto|].
  destruct (N.eq_dec c 13) as [->|Hne]; [exists cur'; auto|].
  exists (c :: cur'). split; [|auto].
  destruct c as [|[[[[p|p|]|[p|p|]|]|[[p|p|]|[p|p|]|]|]|[[[p|p|]|[p|p|]|]|[[p|p|]|[p|p|]|]|]|]];
    try reflexivity; congruence.
Qed.

Lemma cnt_lines p : p 10 = false -> p 13 = false -> forall s cur,
  cnt p (concat (lines_aux s cur)) = (cnt p s + cnt p cur)%nat.
Proof.
  intros H10 H13. induction s as [|c s IH]; intros cur; cbn [lines_aux].
  - destruct cur as [|c cur]; [reflexivity|].
    cbn [concat]. rewrite app_nil_r, cnt_rev. reflexivity.
  - destruct (c =? 10) eqn:E.
    + apply N.eqb_eq in E. subst c. cbn [concat]. rewrite cnt_app, IH, cnt_cons, H10.
      destruct (strip_cr cur) as (cur2 & -> & [->| ->]); rewrite cnt_rev.
      * change (cnt p []) with 0%nat. lia.
      * rewrite (cnt_cons p 13), H13. change (cnt p []) with 0%nat. lia.
    + rewrite IH, !cnt_cons. destruct (p c); lia.
Qed.

Definition is_rob (ch : N) : bool := match classify ch with SRobot _ => true | _ => false end.
Definition is_bad (ch : N) : bool := match classify ch with SBad => true | _ => false end.
Definition b2n {A} (o : option A) : nat := match o with Some _ => 1%nat | None => 0%nat end.

Lemma parse_row_cnt chars : forall x y rb cs rb',
  parse_row chars x y rb = Some (cs, rb') ->
  (cnt is_rob chars + b2n rb = b2n rb')%nat /\ cnt is_bad chars = 0%nat.
Proof.
  induction chars as [|ch r IH]; intros x y rb cs rb' H; cbn [parse_row] in H.
  - inversion H; subst. split; reflexivity.
  - rewrite !cnt_cons. unfold is_rob at 1, is_bad at 1.
    destruct (classify ch) as [c|d|] eqn:EC; [| |discriminate].
    + destruct (parse_row r (S x) y rb) as [[cs1 rb1]|] eqn:E; [|discriminate].
      inversion H; subst. apply IH in E. exact E.
    + destruct rb as [?|]; [discriminate|].
      destruct (parse_row r (S x) y (Some (x, y, d))) as [[cs1 rb1]|] eqn:E; [|discriminate].
      inversion H; subst. apply IH in E as [E1 E2]. cbn [b2n] in *. split; lia.
Qed.

Lemma parse_rows_cnt ls : forall w y rb rows rb',
  parse_rows ls w y rb = Some (rows, rb') ->
  (cnt is_rob (concat ls) + b2n rb = b2n rb')%nat /\ cnt is_bad (concat ls) = 0%nat.
Proof.
  induction ls as [|l ls IH]; intros w y rb rows rb' H; cbn [parse_rows] in H.
  - inversion H; subst. split; reflexivity.
  - destruct (parse_row (pad_row l w) 0 y rb) as [[row rb1]|] eqn:E1; [|discriminate].
    destruct (parse_rows ls w (S y) rb1) as [[rows1 rb2]|] eqn:E2; [|discriminate].
    inversion H; subst.
    apply parse_row_cnt in E1 as [A1 A2]. apply IH in E2 as [B1 B2].
    rewrite cnt_pad in A1, A2 by reflexivity.
    cbn [concat]. rewrite !cnt_app. split; lia.
Qed.

Lemma malformed_unknown_symbol : forall s ch,
  In ch s -> classify ch = SBad -> ch <> 10%N -> ch <> 13%N -> parse_grid s = None.
Proof.
  intros s ch HI HB H10 H13. unfold parse_grid.
  destruct (parse_rows (lines s) (max_width (lines s)) 0 None) as [[rows rb]|] eqn:E; [|reflexivity].
  exfalso. apply parse_rows_cnt in E as [_ Hb].
  set (p := fun c : N => (c =? ch)%N).
  assert (p 10 = false) as P10 by (apply N.eqb_neq; congruence).
  assert (p 13 = false) as P13 by (apply N.eqb_neq; congruence).
  pose proof (cnt_lines p P10 P13 s []) as HL. fold (lines s) in HL.
  assert (0 < cnt p s)%nat as Hpos by (apply (cnt_pos p ch); [exact HI|apply N.eqb_refl]).
  assert (0 < cnt p (concat (lines s)))%nat as Hpos2 by lia.
  destruct (cnt_pos_in p (concat (lines s)) Hpos2) as (c & Hc & Hce).
  apply N.eqb_eq in Hce. subst c.
  assert (0 < cnt is_bad (concat (lines s)))%nat; [|lia].
  apply (cnt_pos is_bad ch); [exact Hc|]. unfold is_bad. rewrite HB. reflexivity.
Qed.

Lemma malformed_no_robot : forall s,
  (forall ch, In ch s -> forall d, classify ch <> SRobot d) -> parse_grid s = None.
Proof.
  intros s HN. unfold parse_grid.
  destruct (parse_rows (lines s) (max_width (lines s)) 0 None) as [[rows rb]|] eqn:E; [|reflexivity].
  apply parse_rows_cnt in E as [Hr _].
  pose proof (cnt_lines is_rob eq_refl eq_refl s []) as HL. fold (lines s) in HL.
  destruct (Nat.eq_dec (cnt is_rob s) 0) as [Hz|Hnz].
  - rewrite HL, Hz in Hr. destruct rb as [[[x y] d]|]; [discriminate|reflexivity].
  - exfalso. destruct (cnt_pos_in is_rob s ltac:(lia)) as (c & Hc & Hcr).
    unfold is_rob in Hcr. destruct (classify c) as [?|d|] eqn:EC; try discriminate.
    exact (HN c Hc d EC).
Qed.

Lemma malformed_two_robots : forall a b c ch1 ch2 d1 d2,
  classify ch1 = SRobot d1 -> classify ch2 = SRobot d2 ->
  parse_grid (a ++ ch1 :: b ++ ch2 :: c) = None.
Proof.
  intros a b c ch1 ch2 d1 d2 H1 H2. unfold parse_grid.
  set (s := a ++ ch1 :: b ++ ch2 :: c).
  destruct (parse_rows (lines s) (max_width (lines s)) 0 None) as [[rows rb]|] eqn:E; [|reflexivity].
  exfalso. apply parse_rows_cnt in E as [Hr _].
  pose proof (cnt_lines is_rob eq_refl eq_refl s []) as HL. fold (lines s) in HL.
  assert (2 <= cnt is_rob s)%nat as H2r.
  { unfold s. rewrite cnt_app, cnt_cons, cnt_app, cnt_cons. unfold is_rob at 2 4.
    rewrite H1, H2. lia. }
  destruct rb; cbn [b2n] in Hr; lia.
Qed.

(** * Non-vacuity *)
Lemma inv_holds_somewhere :
  exists r, parse_grid [35;110;46;10;46;49;120] = Some r /\ can_move r Right = true.
Proof. eexists. split; [vm_compute; reflexivity|vm_compute; reflexivity]. Qed.
