(** RoundTrip: the parser model (ParseImpl) inverts the printer of the documented grammar
    (Printer): parsing [print full req e ++ rest] at the rung [level_for req] returns exactly
    [expected full req e] and stops at [rest].  Used by Props/C05b.v. *)
From Aplang Require Import Base FloatX Token Ast ParseImpl Printer.
From Aplang.Gen Require Import Generated.
Open Scope N_scope.

Definition level_for (req : nat) : level :=
  match req with
  | 0 => LvAssignment | 1 => LvOr | 2 => LvAnd | 3 => LvEquality | 4 => LvComparison | 5 => LvAddition
  | 6 => LvMultiplication | 7 => LvUnary | 8 => LvAccess | _ => LvPrimary
  end%nat.

(** * Cursor primitives on explicit states *)

Lemma tk_eqb_refl k : tk_eqb k k = true.
Proof. apply tk_eqb_eq. reflexivity. Qed.

Lemma tk_eqb_neq a b : a <> b -> tk_eqb a b = false.
Proof. intros H. destruct (tk_eqb a b) eqn:E; [|reflexivity]. apply tk_eqb_eq in E. contradiction. Qed.

Lemma check_hit k t r pv fn lp : tkind t = k -> k <> TEof -> check k (mkP (t :: r) pv fn lp) = true.
Proof. intros H1 H2. unfold check. cbn [rest]. rewrite H1, tk_eqb_refl, (tk_eqb_neq _ _ H2). reflexivity. Qed.

Lemma check_miss k t r pv fn lp : tkind t <> k -> check k (mkP (t :: r) pv fn lp) = false.
Proof. intros H. unfold check. cbn [rest]. rewrite (tk_eqb_neq _ _ H). apply andb_false_r. Qed.

Lemma advance_cons t r pv fn lp : tkind t <> TEof -> advance (mkP (t :: r) pv fn lp) = mkP r (Some t) fn lp.
Proof. intros H. unfold advance. cbn [rest in_fn in_loop]. rewrite (tk_eqb_neq _ _ H). reflexivity. Qed.

Lemma match_tok_hit k t r pv fn lp : tkind t = k -> k <> TEof ->
  match_tok k (mkP (t :: r) pv fn lp) = (true, mkP r (Some t) fn lp).
Proof. intros H1 H2. unfold match_tok. rewrite check_hit by assumption. rewrite advance_cons by congruence. reflexivity. Qed.

Lemma match_tok_miss k t r pv fn lp : tkind t <> k ->
  match_tok k (mkP (t :: r) pv fn lp) = (false, mkP (t :: r) pv fn lp).
Proof. intros H. unfold match_tok. rewrite check_miss by assumption. reflexivity. Qed.

Lemma match_toks_hit ks t r pv fn lp : In (tkind t) ks -> tkind t <> TEof ->
  match_toks ks (mkP (t :: r) pv fn lp) = (true, mkP r (Some t) fn lp).
Proof.
  intros Hin Hne. induction ks as [|k ks IH]; [destruct Hin|].
  cbn [match_toks]. destruct (check k (mkP (t :: r) pv fn lp)) eqn:E.
  - rewrite advance_cons by assumption. reflexivity.
  - destruct Hin as [Hk|Hin]; [|apply IH; exact Hin].
    rewrite check_hit in E; [discriminate|congruence|congruence].
Qed.

Lemma match_toks_miss ks t r pv fn lp : ~ In (tkind t) ks ->
  match_toks ks (mkP (t :: r) pv fn lp) = (false, mkP (t :: r) pv fn lp).
Proof.
  intros Hin. induction ks as [|k ks IH]; [reflexivity|].
  cbn [match_toks]. rewrite check_miss.
  - apply IH. intros H. apply Hin. right. exact H.
  - intros H. apply Hin. left. congruence.
Qed.

Lemma consume_hit k rep t r pv fn lp : tkind t = k -> k <> TEof ->
  consume k rep (mkP (t :: r) pv fn lp) = POk t (mkP r (Some t) fn lp).
Proof.
  intros H1 H2. unfold consume, with_peek. cbn [rest]. rewrite H1, tk_eqb_refl.
  rewrite advance_cons by congruence. reflexivity.
Qed.

(** * One step of each parser function *)

Definition rung_at (n : nat) : rung :=
  match n with
  | 1 => mkRung [TOr] LvAnd LvAnd (MkLog LOr)
  | 2 => mkRung [TAnd] LvEquality LvAnd (MkLog LAnd)
  | 3 => mkRung [TBangEqual; TEqualEqual] LvComparison LvComparison MkBin
  | 4 => mkRung [TGreater; TGreaterEqual; TLess; TLessEqual] LvAddition LvAddition MkBin
  | 5 => mkRung [TPlus; TMinus] LvMultiplication LvMultiplication MkBin
  | _ => mkRung [TStar; TSlash; TMod] LvUnary LvUnary MkBin
  end%nat.

Lemma p_level_S_assign f st : p_level (S f) LvAssignment st =
  (do e, st1 <- p_level f LvOr st;
   with_prev st1 (fun expr_token =>
   match match_tok TArrow st1 with
   | (true, st2) =>
     with_prev st2 (fun arrow =>
     do v, st3 <- p_level f LvAssignment st2;
     match e with
     | EVar name tok => POk (EAssign name tok (tspan arrow) v) st3
     | EAccess lt lb rb lst key => POk (ESet lt lb rb (tspan arrow) lst key v) st3
     | _ => PErr (mkPErr PC_invalid_assignment_target [tspan arrow; tspan expr_token]) st3
     end)
   | (false, _) => POk e st1
   end)).
Proof. reflexivity. Qed.

Lemma p_level_S_bin f n st : (1 <= n <= 6)%nat -> p_level (S f) (level_for n) st =
  (do e, st1 <- p_level f (level_for (S n)) st; p_loop f (rung_at n) e st1).
Proof. intros H. destruct n as [|[|[|[|[|[|[|n]]]]]]]; try lia; reflexivity. Qed.

Lemma p_level_S_unary f st : p_level (S f) LvUnary st =
  match match_toks [TNot; TMinus] st with
  | (true, st1) =>
    with_prev st1 (fun tok =>
    do r, st2 <- p_level f LvUnary st1;
    match assoc_tk (tkind tok) unop_of_token with
    | Some op => POk (EUn op (tspan tok) r) st2
    | None => fail st2
    end)
  | (false, _) => p_level f LvAccess st
  end.
Proof. reflexivity. Qed.

Lemma p_level_S_access f st : p_level (S f) LvAccess st =
  (do e, st1 <- p_level f LvPrimary st;
   with_prev st1 (fun expr_token => p_access f e (tspan expr_token) st1)).
Proof. reflexivity. Qed.

Lemma p_level_S_primary f st : p_level (S f) LvPrimary st = p_primary f st.
Proof. reflexivity. Qed.

Lemma p_loop_S f rg e st : p_loop (S f) rg e st =
  match match_toks (r_ops rg) st with
  | (true, st1) =>
    with_prev st1 (fun tok =>
    do r, st2 <- p_level f (r_loop rg) st1;
    match r_mk rg with
    | MkLog op => p_loop f rg (ELog op (tspan tok) e r) st2
    | MkBin =>
      match assoc_tk (tkind tok) binop_of_token with
      | Some op => p_loop f rg (EBin op (tspan tok) e r) st2
      | None => fail st2
      end
    end)
  | (false, _) => POk e st
  end.
Proof. reflexivity. Qed.

Lemma p_access_S f e sp st : p_access (S f) e sp st =
  match match_tok TLeftBracket st with
  | (true, st1) =>
    with_prev st1 (fun lb =>
    do idx, st2 <- p_level f LvAssignment st1;
    do rb, st3 <- consume TRightBracket (fun t => mkPErr PC_missing_rbracket [tspan t]) st2;
    p_access f (EAccess sp (tspan lb) (tspan rb) e idx) sp st3)
  | (false, _) => POk e st
  end.
Proof. reflexivity. Qed.

Lemma p_items_S f limit n st : p_items (S f) limit n st =
  if (match limit with Some m => m <=? n | None => false end) then fail st else
  do e, st1 <- p_level f LvAssignment st;
  with_peek st1 (fun after =>
  match match_tok TComma st1 with
  | (true, st2) =>
    do more, st3 <- p_items f limit (n + 1) st2;
    POk (e :: fst more, after :: snd more) st3
  | (false, _) => POk ([e], [after]) st1
  end).
Proof. reflexivity. Qed.

Fixpoint windows (l : list token) : list span :=
  match l with
  | a :: ((b :: _) as r) => span_between (tspan a) (tspan b) :: windows r
  | _ => []
  end.

Lemma prim_paren f X pv fn lp0 : p_primary (S f) (mkP (lp :: X) pv fn lp0) =
  (do e, st2 <- p_level f LvAssignment (mkP X (Some lp) fn lp0);
   do rp, st3 <- consume TRightParen (fun x => mkPErr PC_missing_lp [tspan x]) st2;
   POk (EGroup e) st3).
Proof. reflexivity. Qed.

Lemma prim_ident f name X pv fn lp0 :
  p_primary (S f) (mkP (tk0 TIdentifier name LNone :: X) pv fn lp0) =
  match match_tok TLeftParen (mkP X (Some (tk0 TIdentifier name LNone)) fn lp0) with
  | (true, st2) =>
    with_prev st2 (fun lp =>
    do items, st3 <- (if check TRightParen st2 then POk ([], []) st2 else p_items f (Some 255) 0 st2);
    do rp, st4 <- consume TRightParen (fun x => mkPErr PC_missing_rp [tspan x]) st3;
    POk (ECall name z (tspan lp) (tspan rp) (windows (lp :: snd items)) (fst items)) st4)
  | (false, _) => POk (EVar name z) (mkP X (Some (tk0 TIdentifier name LNone)) fn lp0)
  end.
Proof. reflexivity. Qed.

Lemma prim_list f X pv fn lp0 : p_primary (S f) (mkP (kw TLeftBracket :: X) pv fn lp0) =
  (do items, st2 <- (if check TRightBracket (mkP X (Some (kw TLeftBracket)) fn lp0)
                     then POk ([], []) (mkP X (Some (kw TLeftBracket)) fn lp0)
                     else p_items f None 0 (mkP X (Some (kw TLeftBracket)) fn lp0));
   do rb, st3 <- consume TRightBracket (fun x => mkPErr PC_missing_rb [tspan x]) st2;
   POk (EList z (tspan rb) (fst items)) st3).
Proof. reflexivity. Qed.

(** * The printer, one constructor at a time *)

Section Sep.
  Variable full : bool.
  Fixpoint sep_toks (l : list expr) : list token :=
    match l with
    | [] => []
    | [x] => print full 0%nat x
    | x :: r => print full 0%nat x ++ kw TComma :: sep_toks r
    end.
End Sep.

Definition base_req (b : expr) : nat := match b with EAccess _ _ _ _ _ => 8 | _ => 9 end%nat.

Section Unfold.
  Variable full : bool.

  Lemma pr_bin o s l r : pr full (EBin o s l r) =
    print full (binop_level o) l ++ kw (binop_tk o) :: print full (S (binop_level o)) r.
  Proof. reflexivity. Qed.
  Lemma pr_or s l r : pr full (ELog LOr s l r) = print full 1%nat l ++ kw TOr :: print full 2%nat r.
  Proof. reflexivity. Qed.
  Lemma pr_and s l r : pr full (ELog LAnd s l r) = print full 3%nat l ++ kw TAnd :: print full 2%nat r.
  Proof. reflexivity. Qed.
  Lemma pr_un o s x : pr full (EUn o s x) = kw (unop_tk o) :: print full 7%nat x.
  Proof. reflexivity. Qed.
  Lemma pr_call name a b c sp args : pr full (ECall name a b c sp args) =
    tk0 TIdentifier name LNone :: lp :: sep_toks full args ++ [rp].
  Proof. reflexivity. Qed.
  Lemma pr_access a b c bs k : pr full (EAccess a b c bs k) =
    print full (base_req bs) bs ++ kw TLeftBracket :: print full 0%nat k ++ [kw TRightBracket].
  Proof. reflexivity. Qed.
  Lemma pr_list a b items : pr full (EList a b items) = kw TLeftBracket :: sep_toks full items ++ [kw TRightBracket].
  Proof. reflexivity. Qed.
  Lemma pr_assign name a b v : pr full (EAssign name a b v) =
    tk0 TIdentifier name LNone :: kw TArrow :: print full 0%nat v.
  Proof. reflexivity. Qed.
  Lemma pr_set a b c d bs i v : pr full (ESet a b c d bs i v) =
    print full (base_req bs) bs ++ kw TLeftBracket :: print full 0%nat i
    ++ kw TRightBracket :: kw TArrow :: print full 0%nat v.
  Proof. reflexivity. Qed.

  Lemma ex_bin o s l r : ex full (EBin o s l r) =
    EBin o z (expected full (binop_level o) l) (expected full (S (binop_level o)) r).
  Proof. reflexivity. Qed.
  Lemma ex_or s l r : ex full (ELog LOr s l r) = ELog LOr z (expected full 1%nat l) (expected full 2%nat r).
  Proof. reflexivity. Qed.
  Lemma ex_and s l r : ex full (ELog LAnd s l r) = ELog LAnd z (expected full 3%nat l) (expected full 2%nat r).
  Proof. reflexivity. Qed.
  Lemma ex_un o s x : ex full (EUn o s x) = EUn o z (expected full 7%nat x).
  Proof. reflexivity. Qed.
  Lemma ex_call name a b c sp args : ex full (ECall name a b c sp args) =
    ECall name z z z (map (fun _ => z) args) (map (expected full 0%nat) args).
  Proof. reflexivity. Qed.
  Lemma ex_access a b c bs k : ex full (EAccess a b c bs k) =
    EAccess z z z (expected full (base_req bs) bs) (expected full 0%nat k).
  Proof. reflexivity. Qed.
  Lemma ex_list a b items : ex full (EList a b items) = EList z z (map (expected full 0%nat) items).
  Proof. reflexivity. Qed.
  Lemma ex_assign name a b v : ex full (EAssign name a b v) = EAssign name z z (expected full 0%nat v).
  Proof. reflexivity. Qed.
  Lemma ex_set a b c d bs i v : ex full (ESet a b c d bs i v) =
    ESet z z z z (expected full (base_req bs) bs) (expected full 0%nat i) (expected full 0%nat v).
  Proof. reflexivity. Qed.
End Unfold.

Fixpoint all_printable (l : list expr) : Prop :=
  match l with [] => True | x :: r => printable x /\ all_printable r end.

Lemma printable_call name a b c sp args : printable (ECall name a b c sp args) =
  (length sp = length args /\ (length args <= 255)%nat /\ all_printable args).
Proof. reflexivity. Qed.
Lemma printable_list a b items : printable (EList a b items) = all_printable items.
Proof. reflexivity. Qed.

Lemma all_printable_in l : all_printable l -> forall x, In x l -> printable x.
Proof.
  induction l as [|y l IH]; intros H x Hin; [destruct Hin|].
  destruct H as [Hy Hl]. destruct Hin as [->|Hin]; auto.
Qed.

(** * Sizes *)

Definition sum_sizes (l : list expr) : nat := fold_right (fun a n => expr_size a + n)%nat 0%nat l.

Lemma size_call name a b c sp args : expr_size (ECall name a b c sp args) = S (sum_sizes args).
Proof. reflexivity. Qed.
Lemma size_list a b items : expr_size (EList a b items) = S (sum_sizes items).
Proof. reflexivity. Qed.

Lemma sum_sizes_in l x : In x l -> (expr_size x <= sum_sizes l)%nat.
Proof.
  induction l as [|y l IH]; intros Hin; [destruct Hin|].
  cbn [sum_sizes fold_right]. fold (sum_sizes l). destruct Hin as [->|Hin]; [lia|]. specialize (IH Hin). lia.
Qed.

Lemma size_pos e : (1 <= expr_size e)%nat.
Proof. destruct e; cbn [expr_size]; lia. Qed.

(** * The follow condition *)

Definition op_rung (k : tk) : option nat :=
  match k with
  | TArrow => Some 0 | TOr => Some 1 | TAnd => Some 2
  | TBangEqual | TEqualEqual => Some 3
  | TGreater | TGreaterEqual | TLess | TLessEqual => Some 4
  | TPlus | TMinus => Some 5
  | TStar | TSlash | TMod => Some 6
  | TLeftBracket => Some 8
  | TLeftParen => Some 9
  | _ => None
  end%nat.

(* the next token does not continue an expression parsed at rung [n] *)
Definition follow (n : nat) (rest : list token) : Prop :=
  match rest with
  | [] => False
  | t :: _ => match op_rung (tkind t) with Some m => (m < n)%nat | None => True end
  end.

Lemma follow_mono n m rest : (n <= m)%nat -> follow n rest -> follow m rest.
Proof. intros H. destruct rest as [|t r]; cbn; auto. destruct (op_rung (tkind t)); auto. lia. Qed.

Lemma stops_follow n rest : stops rest -> follow n rest.
Proof.
  destruct rest as [|t r]; cbn; auto.
  intros H. repeat (destruct H as [H|H]; [rewrite <- H; exact I|]). destruct H.
Qed.

Lemma rung_ops n k : (1 <= n <= 6)%nat -> In k (r_ops (rung_at n)) -> op_rung k = Some n.
Proof.
  intros H Hin. destruct n as [|[|[|[|[|[|[|n]]]]]]]; try lia; cbn in Hin;
    repeat (destruct Hin as [Hin|Hin]; [subst k; reflexivity|]); destruct Hin.
Qed.

Lemma follow_not_op n lvl t r : (1 <= n <= 6)%nat -> (lvl <= n)%nat -> follow lvl (t :: r) ->
  ~ In (tkind t) (r_ops (rung_at n)).
Proof.
  intros Hn Hl Hf Hin. apply rung_ops in Hin; [|exact Hn]. cbn in Hf. rewrite Hin in Hf. lia.
Qed.

Lemma follow_kind lvl t r k m : op_rung k = Some m -> (lvl <= m)%nat -> follow lvl (t :: r) -> tkind t <> k.
Proof. intros Hk Hl Hf E. cbn in Hf. rewrite E, Hk in Hf. lia. Qed.

(** * First tokens *)

Definition starts8 (toks : list token) : Prop :=
  match toks with
  | t :: _ => In (tkind t) [TIdentifier; TNumber; TStringLiteral; TTrue; TFalse; TNull; TLeftParen; TLeftBracket]
  | [] => False
  end.
Definition starts10 (toks : list token) : Prop :=
  match toks with
  | t :: _ => In (tkind t) [TIdentifier; TNumber; TStringLiteral; TTrue; TFalse; TNull; TLeftParen; TLeftBracket; TNot; TMinus]
  | [] => False
  end.

Lemma starts8_10 toks : starts8 toks -> starts10 toks.
Proof. destruct toks as [|t r]; cbn; auto. intuition. Qed.
Lemma starts8_app a b : starts8 a -> starts8 (a ++ b).
Proof. destruct a; cbn; [tauto|auto]. Qed.
Lemma starts10_app a b : starts10 a -> starts10 (a ++ b).
Proof. destruct a; cbn; [tauto|auto]. Qed.

Section Heads.
  Variable full : bool.

  Lemma print_unfold req e : print full req e = if needs_paren full req e then lp :: pr full e ++ [rp] else pr full e.
  Proof. reflexivity. Qed.
  Lemma expected_unfold req e : expected full req e = if needs_paren full req e then EGroup (ex full e) else ex full e.
  Proof. reflexivity. Qed.

  Lemma needs_paren_false req e : needs_paren full req e = false ->
    (full && compound e = false) /\ (req <= level_of e)%nat.
  Proof.
    unfold needs_paren. intros H. apply orb_false_iff in H as [H1 H2]. split; [exact H1|].
    apply Nat.ltb_ge in H2. exact H2.
  Qed.

  Lemma pr_starts10 e : starts10 (pr full e).
  Proof.
    assert (P : forall req x, starts10 (pr full x) -> starts10 (print full req x)).
    { intros req x H. rewrite print_unfold. destruct (needs_paren full req x); [|exact H]. cbn. tauto. }
    induction e; try (cbn; tauto).
    - rewrite pr_bin. apply starts10_app, P, IHe1.
    - destruct op; [rewrite pr_or|rewrite pr_and]; apply starts10_app, P, IHe1.
    - rewrite pr_un. destruct op; cbn; tauto.
    - rewrite pr_access. apply starts10_app, P, IHe1.
    - rewrite pr_set. apply starts10_app, P, IHe1.
  Qed.

  Lemma pr_starts8 e : (8 <= level_of e)%nat -> starts8 (pr full e).
  Proof.
    induction e; intros Hl; try (cbn; tauto); try (cbn in Hl; lia).
    - destruct op; cbn in Hl; lia.
    - destruct op; cbn in Hl; lia.
    - rewrite pr_access. apply starts8_app. rewrite print_unfold.
      destruct (needs_paren full (base_req e1) e1) eqn:E; [cbn; tauto|].
      apply IHe1. apply needs_paren_false in E as [_ E]. destruct e1; cbn in E |- *; lia.
  Qed.

  Lemma print_starts10 req e : starts10 (print full req e).
  Proof. rewrite print_unfold. destruct (needs_paren full req e); [cbn; tauto|apply pr_starts10]. Qed.
End Heads.

(** * The round trip *)

Lemma tkind_kw k : tkind (kw k) = k.
Proof. reflexivity. Qed.
Lemma tspan_kw k : tspan (kw k) = z.
Proof. reflexivity. Qed.

Section Main.
  Variable full : bool.

  (** [toks] parsed at rung [lvl] give [e] and stop at any continuation that satisfies [follow lvl] *)
  Definition parses (lvl : nat) (toks : list token) (e : expr) : Prop :=
    forall rest pv fn lp0, follow lvl rest ->
    exists fuel t, tspan t = z /\ forall f, (fuel <= f)%nat ->
      p_level f (level_for lvl) (mkP (toks ++ rest) pv fn lp0) = POk e (mkP rest (Some t) fn lp0).

  Definition M (e : expr) : Prop := forall req lvl, (lvl <= req)%nat -> (req <= 9)%nat ->
    parses lvl (print full req e) (expected full req e).
  Definition B (e : expr) : Prop := forall lvl, (lvl <= level_of e)%nat -> parses lvl (pr full e) (ex full e).

  (** ** descending the ladder *)
  Lemma down_step lvl t0 X rest pv fn lp0 e t F :
    (lvl <= 8)%nat -> follow lvl rest -> (lvl = 7%nat -> ~ In (tkind t0) [TNot; TMinus]) ->
    (forall f, (F <= f)%nat -> p_level f (level_for (S lvl)) (mkP (t0 :: X) pv fn lp0) = POk e (mkP rest (Some t) fn lp0)) ->
    forall f, (S (S F) <= f)%nat -> p_level f (level_for lvl) (mkP (t0 :: X) pv fn lp0) = POk e (mkP rest (Some t) fn lp0).
  Proof.
    intros Hl Hf Hu H f Hle. destruct f as [|[|f]]; try lia.
    destruct rest as [|t1 r1]; [destruct Hf|].
    destruct (Nat.eq_dec lvl 0) as [E0|N0]; [|destruct (Nat.eq_dec lvl 7) as [E7|N7]; [|destruct (Nat.eq_dec lvl 8) as [E8|N8]]].
    - subst lvl. cbn [level_for]. rewrite p_level_S_assign. cbn [level_for] in H. rewrite H by lia.
      cbn [pbind with_prev prevt]. rewrite match_tok_miss; [reflexivity|].
      eapply follow_kind; [|apply Nat.le_refl|exact Hf]. reflexivity.
    - subst lvl. cbn [level_for]. rewrite p_level_S_unary. rewrite match_toks_miss by (apply Hu; reflexivity).
      cbn [level_for] in H. apply H. lia.
    - subst lvl. cbn [level_for]. rewrite p_level_S_access. cbn [level_for] in H. rewrite H by lia.
      cbn [pbind with_prev prevt]. rewrite p_access_S. rewrite match_tok_miss; [reflexivity|].
      eapply follow_kind; [|apply Nat.le_refl|exact Hf]. reflexivity.
    - rewrite p_level_S_bin by lia. rewrite H by lia. cbn [pbind]. rewrite p_loop_S.
      rewrite match_toks_miss; [reflexivity|]. eapply follow_not_op; [|apply Nat.le_refl|exact Hf]. lia.
  Qed.

  Lemma starts8_not_unary t0 X : starts8 (t0 :: X) -> ~ In (tkind t0) [TNot; TMinus].
  Proof.
    cbn. intros H [E|[E|[]]]; rewrite <- E in H;
      repeat (destruct H as [H|H]; [discriminate H|]); destruct H.
  Qed.

  Lemma descend lvl hi toks e : (lvl <= hi)%nat -> (hi <= 9)%nat ->
    ((lvl <= 7)%nat -> (7 < hi)%nat -> starts8 toks) -> toks <> [] ->
    parses hi toks e -> parses lvl toks e.
  Proof.
    intros Hlh Hh9 Hst Hne Hp rest pv fn lp0 Hf.
    destruct (Hp rest pv fn lp0 (follow_mono _ _ _ Hlh Hf)) as (F & t & Ht & HF).
    exists (F + 2 * (hi - lvl))%nat, t. split; [exact Ht|].
    remember (hi - lvl)%nat as d eqn:Hd. revert lvl Hlh Hst Hf Hd.
    induction d as [|d IH]; intros lvl Hlh Hst Hf Hd f Hle.
    - assert (lvl = hi) by lia. subst lvl. apply HF. lia.
    - destruct toks as [|t0 X]; [congruence|]. cbn [app].
      apply down_step with (F := (F + 2 * d)%nat); try lia; try exact Hf.
      + intros E7. apply starts8_not_unary with (X := X). apply Hst; lia.
      + intros f' Hf'. specialize (IH (S lvl)). cbn [app] in IH. apply IH; try lia.
        * intros H1 H2. apply Hst; lia.
        * apply follow_mono with lvl; [lia|exact Hf].
  Qed.

  (** ** parentheses *)
  Lemma paren_app toks rest : (lp :: toks ++ [rp]) ++ rest = lp :: toks ++ rp :: rest.
  Proof. cbn [app]. rewrite <- app_assoc. reflexivity. Qed.

  Lemma paren_parses toks e : parses 0 toks e -> parses 9 (lp :: toks ++ [rp]) (EGroup e).
  Proof.
    intros H rest pv fn lp0 Hf.
    destruct (H (rp :: rest) (Some lp) fn lp0 I) as (F & t & Ht & HF).
    exists (S (S F)), rp. split; [reflexivity|]. intros f Hle. destruct f as [|[|f]]; try lia.
    rewrite paren_app. cbn [level_for]. rewrite p_level_S_primary, prim_paren.
    cbn [level_for] in HF. rewrite HF by lia. cbn [pbind].
    rewrite consume_hit; [reflexivity|reflexivity|discriminate].
  Qed.

  Lemma B_M e : B e -> M e.
  Proof.
    intros HB req lvl Hl Hr. rewrite print_unfold, expected_unfold.
    destruct (needs_paren full req e) eqn:E.
    - apply descend with (hi := 9%nat); try lia.
      + intros _ _. cbn. tauto.
      + discriminate.
      + apply paren_parses. apply HB. lia.
    - apply needs_paren_false in E as [_ E]. apply HB. lia.
  Qed.

  (** ** atoms *)
  Lemma atom_B e toks : pr full e = toks -> level_of e = 9%nat -> starts8 toks -> toks <> [] ->
    parses 9 toks (ex full e) -> B e.
  Proof.
    intros Hpr Hlv Hst Hne Hp lvl Hl. rewrite Hpr. apply descend with (hi := 9%nat); auto; lia.
  Qed.

  Lemma num_B x : B (ENum x).
  Proof.
    eapply atom_B; [reflexivity|reflexivity|cbn; tauto|discriminate|].
    intros rest pv fn lp0 _. eexists 2%nat, _. split; [|intros f Hle; destruct f as [|[|f]]; try lia; reflexivity].
    reflexivity.
  Qed.
  Lemma str_B s : B (EStr s).
  Proof.
    eapply atom_B; [reflexivity|reflexivity|cbn; tauto|discriminate|].
    intros rest pv fn lp0 _. eexists 2%nat, _. split; [|intros f Hle; destruct f as [|[|f]]; try lia; reflexivity].
    reflexivity.
  Qed.
  Lemma true_B : B ETrue.
  Proof.
    eapply atom_B; [reflexivity|reflexivity|cbn; tauto|discriminate|].
    intros rest pv fn lp0 _. eexists 2%nat, _. split; [|intros f Hle; destruct f as [|[|f]]; try lia; reflexivity].
    reflexivity.
  Qed.
  Lemma false_B : B EFalse.
  Proof.
    eapply atom_B; [reflexivity|reflexivity|cbn; tauto|discriminate|].
    intros rest pv fn lp0 _. eexists 2%nat, _. split; [|intros f Hle; destruct f as [|[|f]]; try lia; reflexivity].
    reflexivity.
  Qed.
  Lemma null_B : B ENull.
  Proof.
    eapply atom_B; [reflexivity|reflexivity|cbn; tauto|discriminate|].
    intros rest pv fn lp0 _. eexists 2%nat, _. split; [|intros f Hle; destruct f as [|[|f]]; try lia; reflexivity].
    reflexivity.
  Qed.
  Lemma var_B name s : B (EVar name s).
  Proof.
    apply atom_B with (toks := [tk0 TIdentifier name LNone]); [reflexivity|reflexivity|cbn; tauto|discriminate|].
    intros rest pv fn lp0 Hf. exists 2%nat, (tk0 TIdentifier name LNone). split; [reflexivity|].
    intros f Hle; destruct f as [|[|f]]; try lia.
    destruct rest as [|t1 r1]; [destruct Hf|].
    cbn [app level_for]. rewrite p_level_S_primary, prim_ident. rewrite match_tok_miss; [reflexivity|].
    eapply follow_kind; [|apply Nat.le_refl|exact Hf]. reflexivity.
  Qed.

  (** ** binary rungs: the left spine *)
  Inductive bop := OB (o : binop) | OOr.
  Definition lv (b : bop) : nat := match b with OB o => binop_level o | OOr => 1%nat end.
  Definition bop_tk (b : bop) : tk := match b with OB o => binop_tk o | OOr => TOr end.
  Definition bop_mk (b : bop) (l r : expr) : expr :=
    match b with OB o => EBin o z l r | OOr => ELog LOr z l r end.
  Definition as_bin (e : expr) : option (bop * expr * expr) :=
    match e with
    | EBin o _ l r => Some (OB o, l, r)
    | ELog LOr _ l r => Some (OOr, l, r)
    | _ => None
    end.
  Definition left_rung (L : nat) : Prop := L = 1%nat \/ L = 3%nat \/ L = 4%nat \/ L = 5%nat \/ L = 6%nat.

  Lemma lv_left b : left_rung (lv b).
  Proof. unfold left_rung. destruct b as [[]|]; cbn; tauto. Qed.

  Lemma as_bin_spec e b l r : as_bin e = Some (b, l, r) ->
    level_of e = lv b /\
    pr full e = print full (lv b) l ++ kw (bop_tk b) :: print full (S (lv b)) r /\
    ex full e = bop_mk b (expected full (lv b) l) (expected full (S (lv b)) r) /\
    expr_size e = S (expr_size l + expr_size r) /\
    (printable e -> printable l /\ printable r).
  Proof.
    destruct e; intros H; try discriminate H.
    - inversion H; subst. do 4 (split; [reflexivity|]). intros Hq; exact Hq.
    - destruct op; try discriminate H. inversion H; subst. do 4 (split; [reflexivity|]). intros Hq; exact Hq.
  Qed.

  Lemma level_as_bin e : left_rung (level_of e) -> exists b l r, as_bin e = Some (b, l, r).
  Proof.
    unfold left_rung. destruct e; cbn [level_of]; try (intros H; exfalso; lia).
    - intros _. do 3 eexists. reflexivity.
    - destruct op; [intros _; do 3 eexists; reflexivity|intros H; exfalso; lia].
  Qed.

  Definition tl_toks (L : nat) (tl : list (bop * expr)) : list token :=
    flat_map (fun p => kw (bop_tk (fst p)) :: print full (S L) (snd p)) tl.
  Definition tl_fold (L : nat) (tl : list (bop * expr)) (acc : expr) : expr :=
    fold_left (fun a p => bop_mk (fst p) a (expected full (S L) (snd p))) tl acc.

  Lemma tl_toks_cons L b r tl : tl_toks L ((b, r) :: tl) = kw (bop_tk b) :: print full (S L) r ++ tl_toks L tl.
  Proof. reflexivity. Qed.
  Lemma tl_fold_cons L b r tl acc : tl_fold L ((b, r) :: tl) acc = tl_fold L tl (bop_mk b acc (expected full (S L) r)).
  Proof. reflexivity. Qed.

  Lemma needs_paren_mono req req' e : (req <= req')%nat -> needs_paren full req e = true -> needs_paren full req' e = true.
  Proof.
    unfold needs_paren. intros Hle H. apply orb_true_iff in H as [H|H]; apply orb_true_iff; [left; exact H|right].
    apply Nat.ltb_lt in H. apply Nat.ltb_lt. lia.
  Qed.

  Lemma print_same req req' e : needs_paren full req e = needs_paren full req' e ->
    print full req e = print full req' e /\ expected full req e = expected full req' e.
  Proof. intros H. rewrite !print_unfold, !expected_unfold, H. split; reflexivity. Qed.

  Definition spine_ok (e : expr) (L : nat) (h : expr) (tl : list (bop * expr)) : Prop :=
    tl <> [] /\
    pr full e = print full (S L) h ++ tl_toks L tl /\
    ex full e = tl_fold L tl (expected full (S L) h) /\
    printable h /\ (expr_size h < expr_size e)%nat /\
    Forall (fun p => lv (fst p) = L /\ printable (snd p) /\ (expr_size (snd p) < expr_size e)%nat) tl.

  Lemma spine : forall n e, (expr_size e <= n)%nat -> forall b l r, as_bin e = Some (b, l, r) -> printable e ->
    exists h tl, spine_ok e (lv b) h tl.
  Proof.
    induction n as [|n IH]; intros e Hn b l r Hb Hp; [pose proof (size_pos e); lia|].
    destruct (as_bin_spec _ _ _ _ Hb) as (Hlv & Hpr & Hex & Hsz & Hpp). destruct (Hpp Hp) as [Hpl Hpr'].
    set (L := lv b) in *.
    assert (Hone : forall (Hsame : needs_paren full L l = needs_paren full (S L) l), spine_ok e L l [(b, r)]).
    { intros Hsame. destruct (print_same _ _ _ Hsame) as [E1 E2].
      unfold spine_ok. rewrite Hpr, Hex, E1, E2. unfold tl_toks, tl_fold. cbn [flat_map fold_left fst snd].
      rewrite app_nil_r. repeat split; auto; try discriminate; try lia.
      constructor; [|constructor]. cbn [fst snd]. repeat split; auto; lia. }
    destruct (needs_paren full L l) eqn:En.
    - exists l, [(b, r)]. apply Hone. symmetry. apply needs_paren_mono with L; [lia|exact En].
    - destruct (needs_paren_false _ _ _ En) as [Hc Hle].
      destruct (Nat.eq_dec (level_of l) L) as [El|Nl].
      + destruct (level_as_bin l) as (b' & l' & r' & Hb'); [rewrite El; apply lv_left|].
        destruct (as_bin_spec _ _ _ _ Hb') as (Hlv' & _).
        destruct (IH l ltac:(lia) _ _ _ Hb' Hpl) as (h & tl & Hne & Hpr2 & Hex2 & Hph & Hsh & HF).
        assert (EL : lv b' = L) by congruence. rewrite EL in *.
        assert (E1 : print full L l = pr full l) by (rewrite print_unfold, En; reflexivity).
        assert (E2 : expected full L l = ex full l) by (rewrite expected_unfold, En; reflexivity).
        exists h, (tl ++ [(b, r)]). unfold spine_ok. rewrite Hpr, Hex, E1, E2.
        rewrite Hpr2, Hex2. unfold tl_toks, tl_fold. rewrite flat_map_app, fold_left_app.
        cbn [flat_map fold_left fst snd]. rewrite app_nil_r, <- app_assoc. cbn [app].
        repeat split; auto; try lia.
        * intros E. apply app_eq_nil in E as [_ E]. discriminate.
        * apply Forall_app. split.
          -- eapply Forall_impl; [|exact HF]. cbn beta. intros p (H1 & H2 & H3). repeat split; auto; lia.
          -- constructor; [|constructor]. cbn [fst snd]. repeat split; auto; lia.
      + exists l, [(b, r)]. apply Hone. symmetry. unfold needs_paren. rewrite Hc. cbn [orb].
        apply Nat.ltb_ge. lia.
  Qed.

  Lemma op_rung_bop b : op_rung (bop_tk b) = Some (lv b).
  Proof. destruct b as [[]|]; reflexivity. Qed.
  Lemma bop_in_ops b : In (bop_tk b) (r_ops (rung_at (lv b))).
  Proof. destruct b as [[]|]; cbn; tauto. Qed.
  Lemma bop_not_eof b : bop_tk b <> TEof.
  Proof. destruct b as [[]|]; discriminate. Qed.
  Lemma r_loop_left L : left_rung L -> r_loop (rung_at L) = level_for (S L).
  Proof. unfold left_rung. intros [H|[H|[H|[H|H]]]]; subst L; reflexivity. Qed.

  Lemma loop_node b f e r st :
    match r_mk (rung_at (lv b)) with
    | MkLog op => p_loop f (rung_at (lv b)) (ELog op (tspan (kw (bop_tk b))) e r) st
    | MkBin =>
      match assoc_tk (tkind (kw (bop_tk b))) binop_of_token with
      | Some op => p_loop f (rung_at (lv b)) (EBin op (tspan (kw (bop_tk b))) e r) st
      | None => fail st
      end
    end = p_loop f (rung_at (lv b)) (bop_mk b e r) st.
  Proof. destruct b as [[]|]; reflexivity. Qed.

  Lemma follow_tl L tl rest : Forall (fun p => lv (fst p) = L) tl -> follow L rest -> follow (S L) (tl_toks L tl ++ rest).
  Proof.
    intros HF Hf. destruct tl as [|[b r] tl].
    - cbn [tl_toks flat_map app]. apply follow_mono with L; [lia|exact Hf].
    - pose proof (Forall_inv HF) as Hb. cbn [fst] in Hb. rewrite tl_toks_cons. cbn [app follow].
      rewrite tkind_kw, op_rung_bop. lia.
  Qed.

  Lemma loop_tail L : left_rung L -> forall tl, Forall (fun p => lv (fst p) = L /\ M (snd p)) tl ->
    forall rest, follow L rest -> forall acc t0 fn lp0, tspan t0 = z ->
    exists F t, tspan t = z /\ forall fl, (F <= fl)%nat ->
      p_loop fl (rung_at L) acc (mkP (tl_toks L tl ++ rest) (Some t0) fn lp0) =
      POk (tl_fold L tl acc) (mkP rest (Some t) fn lp0).
  Proof.
    intros HL. induction tl as [|[b r] tl IH]; intros HF rest Hf acc t0 fn lp0 Ht0.
    - exists 1%nat, t0. split; [exact Ht0|]. intros fl Hle. destruct fl as [|fl]; [lia|].
      cbn [tl_toks flat_map app tl_fold fold_left]. rewrite p_loop_S.
      destruct rest as [|t1 r1]; [destruct Hf|].
      rewrite match_toks_miss; [reflexivity|]. eapply follow_not_op; [|apply Nat.le_refl|exact Hf].
      unfold left_rung in HL. lia.
    - pose proof (Forall_inv HF) as Hhd. pose proof (Forall_inv_tail HF) as HF'.
      cbn [fst snd] in Hhd. destruct Hhd as [Hb HMr].
      assert (Hf' : follow (S L) (tl_toks L tl ++ rest)).
      { apply follow_tl; [|exact Hf]. eapply Forall_impl; [|exact HF']. cbn beta. intros p [H _]. exact H. }
      assert (HL9 : (S L <= 9)%nat) by (unfold left_rung in HL; lia).
      destruct (HMr (S L) (S L) (Nat.le_refl _) HL9 _ (Some (kw (bop_tk b))) fn lp0 Hf') as (F2 & t2 & Ht2 & H2).
      destruct (IH HF' rest Hf (bop_mk b acc (expected full (S L) r)) t2 fn lp0 Ht2) as (F1 & t1 & Ht1 & H1).
      exists (S (F1 + F2)), t1. split; [exact Ht1|]. intros fl Hle. destruct fl as [|fl]; [lia|].
      rewrite tl_toks_cons, tl_fold_cons. cbn [app]. rewrite <- app_assoc. rewrite p_loop_S.
      rewrite match_toks_hit; [|rewrite tkind_kw, <- Hb; apply bop_in_ops|rewrite tkind_kw; apply bop_not_eof].
      cbn [with_prev prevt]. rewrite r_loop_left by exact HL. rewrite H2 by lia. cbn [pbind].
      subst L. rewrite loop_node. apply H1. lia.
  Qed.

  Lemma bin_case e b l r : as_bin e = Some (b, l, r) -> printable e ->
    (forall x, (expr_size x < expr_size e)%nat -> printable x -> M x) -> B e.
  Proof.
    intros Hb Hp IH lvl Hl.
    destruct (spine _ e (Nat.le_refl _) _ _ _ Hb Hp) as (h & tl & Hne & Hpr & Hex & Hph & Hsh & HF).
    destruct (as_bin_spec _ _ _ _ Hb) as (Hlv & _). rewrite Hlv in Hl.
    pose proof (lv_left b) as HL. set (L := lv b) in *.
    assert (HL6 : (1 <= L <= 6)%nat) by (unfold left_rung in HL; lia).
    apply descend with (hi := L); try lia.
    { rewrite Hpr. pose proof (print_starts10 full (S L) h) as Hs.
      destruct (print full (S L) h); [destruct Hs|discriminate]. }
    rewrite Hpr, Hex. intros rest pv fn lp0 Hf.
    assert (HF1 : Forall (fun p => lv (fst p) = L) tl).
    { eapply Forall_impl; [|exact HF]. cbn beta. intros p [H _]. exact H. }
    assert (HF2 : Forall (fun p => lv (fst p) = L /\ M (snd p)) tl).
    { eapply Forall_impl; [|exact HF]. cbn beta. intros p (H1 & H2 & H3). split; [exact H1|]. apply IH; assumption. }
    destruct (IH h Hsh Hph (S L) (S L) (Nat.le_refl _) ltac:(lia) (tl_toks L tl ++ rest) pv fn lp0
                 (follow_tl _ _ _ HF1 Hf)) as (F1 & t1 & Ht1 & H1).
    destruct (loop_tail L HL tl HF2 rest Hf (expected full (S L) h) t1 fn lp0 Ht1) as (F2 & t2 & Ht2 & H2).
    exists (S (F1 + F2)), t2. split; [exact Ht2|]. intros f Hle. destruct f as [|f]; [lia|].
    rewrite p_level_S_bin by exact HL6. rewrite <- app_assoc. rewrite H1 by lia. cbn [pbind].
    apply H2. lia.
  Qed.

  (** ** AND: the loop operand is the AND rung itself *)
  Lemma and_case s l r : M l -> M r -> B (ELog LAnd s l r).
  Proof.
    intros Ml Mr lvl Hl. cbn [level_of] in Hl.
    apply descend with (hi := 2%nat); try lia.
    { rewrite pr_and. pose proof (print_starts10 full 3 l) as Hs.
      destruct (print full 3 l); [destruct Hs|discriminate]. }
    rewrite pr_and, ex_and. intros rest pv fn lp0 Hf.
    destruct (Ml 3%nat 3%nat (Nat.le_refl _) ltac:(lia) (kw TAnd :: print full 2 r ++ rest) pv fn lp0)
      as (F1 & t1 & Ht1 & H1); [cbn; lia|].
    destruct (Mr 2%nat 2%nat (Nat.le_refl _) ltac:(lia) rest (Some (kw TAnd)) fn lp0 Hf) as (F2 & t2 & Ht2 & H2).
    exists (S (S (S (F1 + F2)))), t2. split; [exact Ht2|]. intros f Hle. destruct f as [|[|[|f]]]; try lia.
    change (level_for 2) with (level_for 2%nat). rewrite (p_level_S_bin _ 2%nat) by lia.
    rewrite <- app_assoc. cbn [app]. rewrite H1 by lia. cbn [pbind].
    rewrite p_loop_S. rewrite match_toks_hit; [|cbn; tauto|discriminate].
    cbn [with_prev prevt]. change (r_loop (rung_at 2)) with (level_for 2). rewrite H2 by lia.
    cbn [pbind r_mk rung_at]. rewrite p_loop_S.
    destruct rest as [|t3 r3]; [destruct Hf|].
    rewrite match_toks_miss; [reflexivity|]. eapply (follow_not_op 2%nat); [lia|apply Nat.le_refl|exact Hf].
  Qed.

  (** ** unary *)
  Lemma un_case o s x : M x -> B (EUn o s x).
  Proof.
    intros Mx lvl Hl. cbn [level_of] in Hl.
    apply descend with (hi := 7%nat); try lia.
    { rewrite pr_un. discriminate. }
    rewrite pr_un, ex_un. intros rest pv fn lp0 Hf.
    destruct (Mx 7%nat 7%nat (Nat.le_refl _) ltac:(lia) rest (Some (kw (unop_tk o))) fn lp0 Hf) as (F & t & Ht & H).
    exists (S F), t. split; [exact Ht|]. intros f Hle. destruct f as [|f]; [lia|].
    cbn [app level_for]. rewrite p_level_S_unary.
    rewrite match_toks_hit; [|destruct o; cbn; tauto|destruct o; discriminate].
    cbn [with_prev prevt]. cbn [level_for] in H. rewrite H by lia. cbn [pbind].
    destruct o; reflexivity.
  Qed.

  (** ** indexing: the left spine of [EAccess] *)
  Definition acc_toks (idxs : list expr) : list token :=
    flat_map (fun k => kw TLeftBracket :: print full 0%nat k ++ [kw TRightBracket]) idxs.
  Definition acc_fold (idxs : list expr) (acc : expr) : expr :=
    fold_left (fun a k => EAccess z z z a (expected full 0%nat k)) idxs acc.

  Lemma acc_toks_cons_app k idxs rest : acc_toks (k :: idxs) ++ rest =
    kw TLeftBracket :: print full 0%nat k ++ kw TRightBracket :: acc_toks idxs ++ rest.
  Proof. unfold acc_toks. cbn [flat_map app]. rewrite <- !app_assoc. reflexivity. Qed.

  Definition aspine_ok (e h : expr) (idxs : list expr) : Prop :=
    idxs <> [] /\
    pr full e = print full 9%nat h ++ acc_toks idxs /\
    ex full e = acc_fold idxs (expected full 9%nat h) /\
    printable h /\ (expr_size h < expr_size e)%nat /\
    Forall (fun k => printable k /\ (expr_size k < expr_size e)%nat) idxs.

  Lemma aspine : forall n a b c bs k, (expr_size (EAccess a b c bs k) <= n)%nat -> printable (EAccess a b c bs k) ->
    exists h idxs, aspine_ok (EAccess a b c bs k) h idxs.
  Proof.
    induction n as [|n IH]; intros a b c bs k Hn Hp; [cbn [expr_size] in Hn; lia|].
    destruct Hp as [Hpb Hpk]. cbn [expr_size] in Hn.
    assert (Hone : needs_paren full (base_req bs) bs = needs_paren full 9%nat bs -> aspine_ok (EAccess a b c bs k) bs [k]).
    { intros Hsame. destruct (print_same _ _ _ Hsame) as [E1 E2].
      unfold aspine_ok. rewrite pr_access, ex_access, E1, E2. unfold acc_toks, acc_fold.
      cbn [flat_map fold_left expr_size]. rewrite app_nil_r.
      repeat split; auto; try discriminate; try lia. constructor; [|constructor]. split; [exact Hpk|lia]. }
    destruct (Nat.eq_dec (base_req bs) 9) as [E9|N9].
    - exists bs, [k]. apply Hone. rewrite E9. reflexivity.
    - destruct bs as [| | | | | | | | | |a' b' c' bs' k'| | | |]; try (exfalso; apply N9; reflexivity).
      cbn [base_req] in Hone.
      destruct (needs_paren full 8 (EAccess a' b' c' bs' k')) eqn:En.
      + exists (EAccess a' b' c' bs' k'), [k]. apply Hone. symmetry. apply needs_paren_mono with 8%nat; [lia|exact En].
      + destruct (IH a' b' c' bs' k' ltac:(lia) Hpb) as (h & idxs & Hne & Hpr2 & Hex2 & Hph & Hsh & HF).
        assert (E1 : print full 8 (EAccess a' b' c' bs' k') = pr full (EAccess a' b' c' bs' k'))
          by (rewrite print_unfold, En; reflexivity).
        assert (E2 : expected full 8 (EAccess a' b' c' bs' k') = ex full (EAccess a' b' c' bs' k'))
          by (rewrite expected_unfold, En; reflexivity).
        exists h, (idxs ++ [k]). unfold aspine_ok. rewrite pr_access, ex_access. cbn [base_req].
        rewrite E1, E2, Hpr2, Hex2. unfold acc_toks, acc_fold. rewrite flat_map_app, fold_left_app.
        cbn [flat_map fold_left]. rewrite app_nil_r, <- app_assoc.
        cbn [expr_size] in *. repeat split; auto; try lia.
        * intros E. apply app_eq_nil in E as [_ E]. discriminate.
        * apply Forall_app. split.
          -- eapply Forall_impl; [|exact HF]. cbn beta. intros p (H1 & H2). split; [exact H1|lia].
          -- constructor; [|constructor]. split; [exact Hpk|lia].
  Qed.

  Lemma access_tail : forall idxs, Forall M idxs ->
    forall rest, follow 8 rest -> forall acc t0 fn lp0, tspan t0 = z ->
    exists F t, tspan t = z /\ forall fl, (F <= fl)%nat ->
      p_access fl acc z (mkP (acc_toks idxs ++ rest) (Some t0) fn lp0) =
      POk (acc_fold idxs acc) (mkP rest (Some t) fn lp0).
  Proof.
    induction idxs as [|k idxs IH]; intros HF rest Hf acc t0 fn lp0 Ht0.
    - exists 1%nat, t0. split; [exact Ht0|]. intros fl Hle. destruct fl as [|fl]; [lia|].
      cbn [acc_toks flat_map app acc_fold fold_left]. rewrite p_access_S.
      destruct rest as [|t1 r1]; [destruct Hf|].
      rewrite match_tok_miss; [reflexivity|]. eapply follow_kind; [|apply Nat.le_refl|exact Hf]. reflexivity.
    - pose proof (Forall_inv HF) as Mk. pose proof (Forall_inv_tail HF) as HF'.
      destruct (Mk 0%nat 0%nat (Nat.le_refl _) ltac:(lia) (kw TRightBracket :: acc_toks idxs ++ rest)
                   (Some (kw TLeftBracket)) fn lp0 I) as (F2 & t2 & Ht2 & H2).
      destruct (IH HF' rest Hf (EAccess z z z acc (expected full 0 k)) (kw TRightBracket) fn lp0 eq_refl)
        as (F1 & t1 & Ht1 & H1).
      exists (S (F1 + F2)), t1. split; [exact Ht1|]. intros fl Hle. destruct fl as [|fl]; [lia|].
      rewrite acc_toks_cons_app. rewrite p_access_S.
      rewrite match_tok_hit; [|reflexivity|discriminate].
      cbn [with_prev prevt]. cbn [level_for] in H2. rewrite H2 by lia. cbn [pbind].
      rewrite consume_hit; [|reflexivity|discriminate]. cbn [pbind].
      unfold acc_fold. cbn [fold_left]. apply H1. lia.
  Qed.

  Lemma access_case a b c bs k : printable (EAccess a b c bs k) ->
    (forall x, (expr_size x < expr_size (EAccess a b c bs k))%nat -> printable x -> M x) -> B (EAccess a b c bs k).
  Proof.
    intros Hp IH lvl Hl. cbn [level_of] in Hl.
    destruct (aspine _ a b c bs k (Nat.le_refl _) Hp) as (h & idxs & Hne & Hpr & Hex & Hph & Hsh & HF).
    apply descend with (hi := 8%nat); try lia.
    { intros _ _. apply pr_starts8. cbn [level_of]. lia. }
    { pose proof (pr_starts10 full (EAccess a b c bs k)) as Hs.
      destruct (pr full (EAccess a b c bs k)); [destruct Hs|discriminate]. }
    rewrite Hpr, Hex. intros rest pv fn lp0 Hf.
    assert (HF2 : Forall M idxs).
    { eapply Forall_impl; [|exact HF]. cbn beta. intros p (H1 & H2). apply IH; assumption. }
    assert (Hf9 : follow 9 (acc_toks idxs ++ rest)).
    { destruct idxs as [|k0 idxs]; [congruence|]. rewrite acc_toks_cons_app. cbn. lia. }
    destruct (IH h Hsh Hph 9%nat 9%nat (Nat.le_refl _) (Nat.le_refl _) (acc_toks idxs ++ rest) pv fn lp0 Hf9)
      as (F1 & t1 & Ht1 & H1).
    destruct (access_tail idxs HF2 rest Hf (expected full 9 h) t1 fn lp0 Ht1) as (F2 & t2 & Ht2 & H2).
    exists (S (F1 + F2)), t2. split; [exact Ht2|]. intros f Hle. destruct f as [|f]; [lia|].
    cbn [level_for]. rewrite p_level_S_access. rewrite <- app_assoc. cbn [level_for] in H1. rewrite H1 by lia.
    cbn [pbind with_prev prevt]. rewrite Ht1. apply H2. lia.
  Qed.

  (** ** comma-separated items *)
  Lemma sep_toks_cons2 x y r : sep_toks full (x :: y :: r) = print full 0%nat x ++ kw TComma :: sep_toks full (y :: r).
  Proof. reflexivity. Qed.

  Lemma sep_starts items X : items <> [] -> starts10 (sep_toks full items ++ X).
  Proof.
    destruct items as [|x [|y r]]; [congruence| |]; intros _.
    - cbn [sep_toks]. apply starts10_app, print_starts10.
    - rewrite sep_toks_cons2. apply starts10_app, starts10_app, print_starts10.
  Qed.

  Lemma check_starts10 k X pv fn lp0 : starts10 X ->
    ~ In k [TIdentifier; TNumber; TStringLiteral; TTrue; TFalse; TNull; TLeftParen; TLeftBracket; TNot; TMinus] ->
    check k (mkP X pv fn lp0) = false.
  Proof.
    intros Hs Hk. destruct X as [|t0 X]; [destruct Hs|]. apply check_miss. intros E. apply Hk. rewrite <- E. exact Hs.
  Qed.

  Definition closer (ck : tk) : Prop := ck = TRightParen \/ ck = TRightBracket.

  Lemma items_parse ck : closer ck -> forall items, items <> [] -> Forall M items ->
    forall limit n rest pv fn lp0,
    match limit with Some m => (n + N.of_nat (length items) <= m)%N | None => True end ->
    exists F t afters, tspan t = z /\ length afters = length items /\ Forall (fun a => tspan a = z) afters /\
      forall f, (F <= f)%nat ->
      p_items f limit n (mkP (sep_toks full items ++ kw ck :: rest) pv fn lp0) =
      POk (map (expected full 0%nat) items, afters) (mkP (kw ck :: rest) (Some t) fn lp0).
  Proof.
    intros Hck. induction items as [|x items IH]; intros Hne HF limit n rest pv fn lp0 Hlim; [congruence|].
    pose proof (Forall_inv HF) as Mx. pose proof (Forall_inv_tail HF) as HF'.
    assert (Hlim0 : (match limit with Some m => m <=? n | None => false end) = false).
    { destruct limit as [m|]; [|reflexivity]. apply N.leb_gt. cbn [length] in Hlim. lia. }
    destruct items as [|y r].
    - destruct (Mx 0%nat 0%nat (Nat.le_refl _) ltac:(lia) (kw ck :: rest) pv fn lp0) as (F & t & Ht & H).
      { cbn. destruct Hck; subst ck; exact I. }
      exists (S F), t, [kw ck]. split; [exact Ht|]. split; [reflexivity|]. split; [constructor; [reflexivity|constructor]|].
      intros f Hle. destruct f as [|f]; [lia|].
      cbn [sep_toks]. rewrite p_items_S, Hlim0. cbn [level_for] in H. rewrite H by lia.
      cbn [pbind with_peek ParseImpl.rest]. rewrite match_tok_miss; [reflexivity|].
      rewrite tkind_kw. destruct Hck; subst ck; discriminate.
    - destruct (Mx 0%nat 0%nat (Nat.le_refl _) ltac:(lia) (kw TComma :: sep_toks full (y :: r) ++ kw ck :: rest) pv fn lp0 I)
        as (F2 & t2 & Ht2 & H2).
      destruct (IH ltac:(discriminate) HF' limit (n + 1)%N rest (Some (kw TComma)) fn lp0) as (F1 & t1 & afters & Ht1 & Hlen & Haf & H1).
      { destruct limit as [m|]; [|exact I]. cbn [length] in Hlim |- *. lia. }
      exists (S (F1 + F2)), t1, (kw TComma :: afters). split; [exact Ht1|].
      split; [cbn [length] in *; lia|]. split; [constructor; [reflexivity|exact Haf]|].
      intros f Hle. destruct f as [|f]; [lia|].
      rewrite sep_toks_cons2, <- app_assoc. cbn [app]. rewrite p_items_S, Hlim0.
      cbn [level_for] in H2. rewrite H2 by lia.
      cbn [pbind with_peek ParseImpl.rest]. rewrite match_tok_hit; [|reflexivity|discriminate].
      rewrite H1 by lia. cbn [pbind fst snd map]. reflexivity.
  Qed.

  Lemma windows_z a l : tspan a = z -> Forall (fun t => tspan t = z) l -> windows (a :: l) = map (fun _ => z) l.
  Proof.
    revert a. induction l as [|b l IH]; intros a Ha Hl; [reflexivity|].
    pose proof (Forall_inv Hl) as Hb. pose proof (Forall_inv_tail Hl) as Hl'.
    change (windows (a :: b :: l)) with (span_between (tspan a) (tspan b) :: windows (b :: l)).
    cbn [map]. cbn beta in Hb. rewrite Ha, Hb. f_equal. apply IH; assumption.
  Qed.

  Lemma map_const_len {A C} (c : C) (a : list A) (b : list A) : length a = length b ->
    map (fun _ => c) a = map (fun _ => c) b.
  Proof.
    revert b. induction a as [|x a IH]; intros [|y b] H; try discriminate; [reflexivity|].
    cbn [map]. f_equal. apply IH. cbn [length] in H. lia.
  Qed.
  Lemma map_const_len2 {A A' C} (c : C) (a : list A) (b : list A') : length a = length b ->
    map (fun _ => c) a = map (fun _ => c) b.
  Proof.
    revert b. induction a as [|x a IH]; intros [|y b] H; try discriminate; [reflexivity|].
    cbn [map]. f_equal. apply IH. cbn [length] in H. lia.
  Qed.

  (** ** calls and lists *)
  Lemma call_case name a b c sp args : Forall M args -> (length args <= 255)%nat -> B (ECall name a b c sp args).
  Proof.
    intros HF Hlen. apply atom_B with (toks := tk0 TIdentifier name LNone :: lp :: sep_toks full args ++ [rp]);
      [apply pr_call|reflexivity|cbn; tauto|discriminate|].
    rewrite ex_call. intros rest pv fn lp0 Hf.
    destruct args as [|x r].
    - exists 2%nat, rp. split; [reflexivity|]. intros f Hle. destruct f as [|[|f]]; try lia.
      cbn [sep_toks app level_for map]. rewrite p_level_S_primary, prim_ident.
      rewrite match_tok_hit; [|reflexivity|discriminate]. cbn [with_prev prevt].
      rewrite check_hit; [|reflexivity|discriminate]. cbn [pbind].
      rewrite consume_hit; [|reflexivity|discriminate]. reflexivity.
    - destruct (items_parse TRightParen (or_introl eq_refl) (x :: r) ltac:(discriminate) HF (Some 255%N) 0%N rest (Some lp) fn lp0)
        as (F & t & afters & Ht & Hlen' & Haf & H).
      { lia. }
      exists (S (S F)), rp. split; [reflexivity|]. intros f Hle. destruct f as [|[|f]]; try lia.
      cbn [level_for]. rewrite p_level_S_primary. cbn [app]. rewrite <- app_assoc. cbn [app].
      rewrite prim_ident. rewrite match_tok_hit; [|reflexivity|discriminate]. cbn [with_prev prevt].
      rewrite check_starts10; [|apply sep_starts; discriminate|cbn; intuition discriminate].
      change (kw TRightParen) with rp in H. rewrite H by lia. cbn [pbind].
      rewrite consume_hit; [|reflexivity|discriminate]. cbn [fst snd].
      rewrite windows_z; [|reflexivity|exact Haf].
      rewrite (map_const_len2 z afters (x :: r) Hlen'). reflexivity.
  Qed.

  Lemma list_case a b items : Forall M items -> B (EList a b items).
  Proof.
    intros HF. apply atom_B with (toks := kw TLeftBracket :: sep_toks full items ++ [kw TRightBracket]);
      [apply pr_list|reflexivity|cbn; tauto|discriminate|].
    rewrite ex_list. intros rest pv fn lp0 Hf.
    destruct items as [|x r].
    - exists 2%nat, (kw TRightBracket). split; [reflexivity|]. intros f Hle. destruct f as [|[|f]]; try lia.
      cbn [sep_toks app level_for map]. rewrite p_level_S_primary, prim_list.
      rewrite check_hit; [|reflexivity|discriminate]. cbn [pbind].
      rewrite consume_hit; [|reflexivity|discriminate]. reflexivity.
    - destruct (items_parse TRightBracket (or_intror eq_refl) (x :: r) ltac:(discriminate) HF None 0%N rest (Some (kw TLeftBracket)) fn lp0 I)
        as (F & t & afters & Ht & Hlen' & Haf & H).
      exists (S (S F)), (kw TRightBracket). split; [reflexivity|]. intros f Hle. destruct f as [|[|f]]; try lia.
      cbn [level_for]. rewrite p_level_S_primary. cbn [app]. rewrite <- app_assoc. cbn [app].
      rewrite prim_list.
      rewrite check_starts10; [|apply sep_starts; discriminate|cbn; intuition discriminate].
      rewrite H by lia. cbn [pbind].
      rewrite consume_hit; [|reflexivity|discriminate]. reflexivity.
  Qed.

  (** ** assignments *)
  Lemma assign_case name a b v : M v -> B (EAssign name a b v).
  Proof.
    intros Mv lvl Hl. cbn [level_of] in Hl. assert (lvl = 0%nat) by lia. subst lvl.
    rewrite pr_assign, ex_assign. intros rest pv fn lp0 Hf.
    destruct (var_B name z 1%nat ltac:(cbn; lia) (kw TArrow :: print full 0 v ++ rest) pv fn lp0) as (F1 & t1 & Ht1 & H1).
    { cbn. lia. }
    destruct (Mv 0%nat 0%nat (Nat.le_refl _) ltac:(lia) rest (Some (kw TArrow)) fn lp0 Hf) as (F2 & t2 & Ht2 & H2).
    exists (S (F1 + F2)), t2. split; [exact Ht2|]. intros f Hle. destruct f as [|f]; [lia|].
    cbn [level_for]. rewrite p_level_S_assign. cbn [app].
    change (pr full (EVar name z)) with [tk0 TIdentifier name LNone] in H1. cbn [app level_for] in H1.
    rewrite H1 by lia. cbn [pbind with_prev prevt].
    rewrite match_tok_hit; [|reflexivity|discriminate]. cbn [with_prev prevt].
    cbn [level_for] in H2. rewrite H2 by lia. reflexivity.
  Qed.

  Lemma set_app bs i v rest :
    (print full (base_req bs) bs ++ kw TLeftBracket :: print full 0%nat i ++ kw TRightBracket :: kw TArrow :: print full 0%nat v) ++ rest =
    (print full (base_req bs) bs ++ kw TLeftBracket :: print full 0%nat i ++ [kw TRightBracket]) ++ kw TArrow :: print full 0%nat v ++ rest.
  Proof. rewrite <- !app_assoc. cbn [app]. rewrite <- !app_assoc. reflexivity. Qed.

  Lemma set_case a b c d bs i v : B (EAccess z z z bs i) -> M v -> B (ESet a b c d bs i v).
  Proof.
    intros Ba Mv lvl Hl. cbn [level_of] in Hl. assert (lvl = 0%nat) by lia. subst lvl.
    rewrite pr_set, ex_set. intros rest pv fn lp0 Hf.
    destruct (Ba 1%nat ltac:(cbn; lia) (kw TArrow :: print full 0 v ++ rest) pv fn lp0) as (F1 & t1 & Ht1 & H1).
    { cbn. lia. }
    destruct (Mv 0%nat 0%nat (Nat.le_refl _) ltac:(lia) rest (Some (kw TArrow)) fn lp0 Hf) as (F2 & t2 & Ht2 & H2).
    exists (S (F1 + F2)), t2. split; [exact Ht2|]. intros f Hle. destruct f as [|f]; [lia|].
    cbn [level_for]. rewrite p_level_S_assign. rewrite set_app.
    rewrite pr_access, ex_access in H1. cbn [level_for] in H1.
    rewrite H1 by lia. cbn [pbind with_prev prevt].
    rewrite match_tok_hit; [|reflexivity|discriminate]. cbn [with_prev prevt].
    cbn [level_for] in H2. rewrite H2 by lia. reflexivity.
  Qed.

  (** ** every printable expression *)
  Lemma all_printable_Forall l : all_printable l -> Forall printable l.
  Proof. induction l as [|x l IH]; intros H; constructor; [apply H|apply IH, H]. Qed.

  Theorem B_all : forall n e, (expr_size e <= n)%nat -> printable e -> B e.
  Proof.
    induction n as [|n IH]; intros e Hn Hp; [pose proof (size_pos e); lia|].
    assert (IHM : forall x, (expr_size x < expr_size e)%nat -> printable x -> M x).
    { intros x Hx Hpx. apply B_M, IH; [lia|exact Hpx]. }
    assert (IHL : forall l, all_printable l -> (sum_sizes l < expr_size e)%nat -> Forall M l).
    { intros l Hl Hs. apply Forall_forall. intros x Hin. apply IHM.
      - pose proof (sum_sizes_in _ _ Hin). lia.
      - eapply all_printable_in; eassumption. }
    destruct e.
    - destruct Hp.
    - apply num_B.
    - apply str_B.
    - apply true_B.
    - apply false_B.
    - apply null_B.
    - eapply bin_case; [reflexivity|exact Hp|exact IHM].
    - destruct Hp as [Hp1 Hp2]. destruct op.
      + eapply bin_case; [reflexivity|split; assumption|exact IHM].
      + apply and_case; apply IHM; cbn [expr_size]; auto; lia.
    - apply un_case. apply IHM; [cbn [expr_size]; lia|exact Hp].
    - rewrite printable_call in Hp. destruct Hp as (Hlen & H255 & Hall).
      apply call_case; [|exact H255]. apply IHL; [exact Hall|rewrite size_call; lia].
    - apply access_case; [exact Hp|exact IHM].
    - rewrite printable_list in Hp. apply list_case. apply IHL; [exact Hp|rewrite size_list; lia].
    - apply var_B.
    - apply assign_case. apply IHM; [cbn [expr_size]; lia|exact Hp].
    - destruct Hp as (Hp1 & Hp2 & Hp3). apply set_case.
      + apply IH; [pose proof (size_pos e3); cbn [expr_size] in *; lia|split; assumption].
      + apply IHM; [cbn [expr_size]; lia|exact Hp3].
  Qed.

  Theorem M_all e : printable e -> M e.
  Proof. intros Hp. apply B_M. apply B_all with (n := expr_size e); [lia|exact Hp]. Qed.
End Main.

(** * The theorems of Props/C05b.v *)

Theorem parse_print : forall full e req rest st,
  printable e -> stops rest -> (req <= 9)%nat -> ParseImpl.rest st = print full req e ++ rest ->
  exists fuel, forall f, (fuel <= f)%nat ->
    exists st', p_level f (level_for req) st = POk (expected full req e) st' /\
                ParseImpl.rest st' = rest /\ in_fn st' = in_fn st /\ in_loop st' = in_loop st.
Proof.
  intros full e req rest st Hp Hs Hr Hst. destruct st as [ts pv fn lp0]. cbn [ParseImpl.rest] in Hst. subst ts.
  destruct (M_all full e Hp req req (Nat.le_refl _) Hr rest pv fn lp0 (stops_follow _ _ Hs)) as (F & t & _ & H).
  exists F. intros f Hle. exists (mkP rest (Some t) fn lp0). split; [apply H; exact Hle|]. repeat split.
Qed.

(** ** forgetting the groups *)

Lemma strip_ungroup_ex full : forall n e, (expr_size e <= n)%nat -> printable e ->
  strip (ex full e) = strip e /\ ungroup (ex full e) = strip e.
Proof.
  induction n as [|n IH]; intros e Hn Hp; [pose proof (size_pos e); lia|].
  assert (IHx : forall req x, (expr_size x <= n)%nat -> printable x ->
            strip (expected full req x) = strip x /\ ungroup (expected full req x) = strip x).
  { intros req x Hx Hpx. rewrite expected_unfold. destruct (needs_paren full req x); cbn [strip ungroup]; apply IH; assumption. }
  assert (IHL : forall l, all_printable l -> (sum_sizes l <= n)%nat ->
            map strip (map (expected full 0%nat) l) = map strip l /\ map ungroup (map (expected full 0%nat) l) = map strip l).
  { intros l Hl Hs. rewrite !map_map. split; apply map_ext_in; intros x Hin; apply IHx;
      try (pose proof (sum_sizes_in _ _ Hin); lia); eapply all_printable_in; eassumption. }
  destruct e.
  - destruct Hp.
  - split; reflexivity.
  - split; reflexivity.
  - split; reflexivity.
  - split; reflexivity.
  - split; reflexivity.
  - destruct Hp as [Hp1 Hp2]. cbn [expr_size] in Hn. rewrite ex_bin. cbn [strip ungroup].
    destruct (IHx (binop_level op) e1 ltac:(lia) Hp1) as [-> ->].
    destruct (IHx (S (binop_level op)) e2 ltac:(lia) Hp2) as [-> ->]. split; reflexivity.
  - destruct Hp as [Hp1 Hp2]. cbn [expr_size] in Hn. destruct op; [rewrite ex_or|rewrite ex_and]; cbn [strip ungroup].
    + destruct (IHx 1%nat e1 ltac:(lia) Hp1) as [-> ->]. destruct (IHx 2%nat e2 ltac:(lia) Hp2) as [-> ->]. split; reflexivity.
    + destruct (IHx 3%nat e1 ltac:(lia) Hp1) as [-> ->]. destruct (IHx 2%nat e2 ltac:(lia) Hp2) as [-> ->]. split; reflexivity.
  - cbn [expr_size] in Hn. rewrite ex_un. cbn [strip ungroup].
    destruct (IHx 7%nat e ltac:(lia) Hp) as [-> ->]. split; reflexivity.
  - rewrite printable_call in Hp. destruct Hp as (Hlen & H255 & Hall). rewrite size_call in Hn.
    rewrite ex_call. cbn [strip ungroup]. destruct (IHL args Hall ltac:(lia)) as [-> ->].
    rewrite map_map. rewrite (map_const_len2 z args arg_spans) by (symmetry; exact Hlen). split; reflexivity.
  - destruct Hp as [Hp1 Hp2]. cbn [expr_size] in Hn. rewrite ex_access. cbn [strip ungroup].
    destruct (IHx (base_req e1) e1 ltac:(lia) Hp1) as [-> ->]. destruct (IHx 0%nat e2 ltac:(lia) Hp2) as [-> ->].
    split; reflexivity.
  - rewrite printable_list in Hp. rewrite size_list in Hn. rewrite ex_list. cbn [strip ungroup].
    destruct (IHL items Hp ltac:(lia)) as [-> ->]. split; reflexivity.
  - split; reflexivity.
  - cbn [expr_size] in Hn. rewrite ex_assign. cbn [strip ungroup].
    destruct (IHx 0%nat e ltac:(lia) Hp) as [-> ->]. split; reflexivity.
  - destruct Hp as (Hp1 & Hp2 & Hp3). cbn [expr_size] in Hn. rewrite ex_set. cbn [strip ungroup].
    destruct (IHx (base_req e1) e1 ltac:(lia) Hp1) as [-> ->]. destruct (IHx 0%nat e2 ltac:(lia) Hp2) as [-> ->].
    destruct (IHx 0%nat e3 ltac:(lia) Hp3) as [-> ->]. split; reflexivity.
Qed.

Lemma strip_ungroup_expected full req e : printable e ->
  strip (expected full req e) = strip e /\ ungroup (expected full req e) = strip e.
Proof.
  intros Hp. rewrite expected_unfold. destruct (needs_paren full req e); cbn [strip ungroup];
    apply strip_ungroup_ex with (n := expr_size e); auto.
Qed.

Theorem strip_expected : forall full req e, printable e -> strip (expected full req e) = strip e.
Proof. intros full req e Hp. apply strip_ungroup_expected. exact Hp. Qed.

Theorem ungroup_expected : forall full req e, printable e -> ungroup (expected full req e) = strip e.
Proof. intros full req e Hp. apply strip_ungroup_expected. exact Hp. Qed.

Theorem min_full_same_behaviour : forall e st0 rest,
  printable e -> stops rest -> ParseImpl.rest st0 = [] ->
  exists fuel tmin tfull,
    (exists s1, p_level fuel LvAssignment (mkP (print false 0 e ++ rest) (prevt st0) (in_fn st0) (in_loop st0)) = POk tmin s1) /\
    (exists s2, p_level fuel LvAssignment (mkP (print true 0 e ++ rest) (prevt st0) (in_fn st0) (in_loop st0)) = POk tfull s2) /\
    ungroup tmin = ungroup tfull.
Proof.
  intros e st0 rest Hp Hs _.
  destruct (parse_print false e 0%nat rest (mkP (print false 0 e ++ rest) (prevt st0) (in_fn st0) (in_loop st0))
              Hp Hs ltac:(lia) eq_refl) as (F1 & H1).
  destruct (parse_print true e 0%nat rest (mkP (print true 0 e ++ rest) (prevt st0) (in_fn st0) (in_loop st0))
              Hp Hs ltac:(lia) eq_refl) as (F2 & H2).
  destruct (H1 (F1 + F2)%nat ltac:(lia)) as (s1 & E1 & _).
  destruct (H2 (F1 + F2)%nat ltac:(lia)) as (s2 & E2 & _).
  exists (F1 + F2)%nat, (expected false 0 e), (expected true 0 e).
  split; [exists s1; exact E1|]. split; [exists s2; exact E2|].
  rewrite !ungroup_expected by exact Hp. reflexivity.
Qed.
