(** LexProofs: the scanner model (LexImpl) against the reference lexical grammar (LexSpec). *)
From Aplang Require Import Base FloatX Token LexImpl LexSpec.
From Aplang.Gen Require Import Generated.
Open Scope N_scope.

Definition ascii_ok (a : N -> bool) : Prop :=
  forall c, (c < 128)%N -> a c = (ascii_digit c || ascii_alpha c).

(** * Tables *)

Lemma assoc_text_In {A} w (l : list (text * A)) v : assoc_text w l = Some v -> In (w, v) l.
Proof.
  induction l as [|[k x] l IH]; cbn [assoc_text]; intro H; [discriminate|].
  destruct (text_eqb w k) eqn:E.
  - apply text_eqb_eq in E. inversion H; subst. left; reflexivity.
  - right; auto.
Qed.

Lemma assoc_N_In {A} c (l : list (N * A)) v : assoc_N c l = Some v -> In (c, v) l.
Proof.
  induction l as [|[k x] l IH]; cbn [assoc_N]; intro H; [discriminate|].
  destruct (c =? k) eqn:E.
  - apply N.eqb_eq in E. inversion H; subst. left; reflexivity.
  - right; auto.
Qed.

Definition opt_eqb {A} (eqb : A -> A -> bool) (x y : option A) : bool :=
  match x, y with
  | Some u, Some v => eqb u v
  | None, None => true
  | _, _ => false
  end.

Lemma opt_eqb_eq {A} (eqb : A -> A -> bool) (Heqb : forall u v, eqb u v = true -> u = v) x y :
  opt_eqb eqb x y = true -> x = y.
Proof. destruct x, y; cbn; intro H; try discriminate; auto. f_equal; auto. Qed.

(* two association lists agree on every key that occurs in either of them *)
Definition text_tables_agree {A} (eqb : A -> A -> bool) (l1 l2 : list (text * A)) : bool :=
  forallb (fun p => opt_eqb eqb (assoc_text (fst p) l1) (assoc_text (fst p) l2)) (l1 ++ l2).

Lemma text_tables_agree_sound {A} (eqb : A -> A -> bool) (Heqb : forall u v, eqb u v = true -> u = v) l1 l2 :
  text_tables_agree eqb l1 l2 = true -> forall w, assoc_text w l1 = assoc_text w l2.
Proof.
  intros H w. unfold text_tables_agree in H. rewrite forallb_forall in H.
  destruct (assoc_text w l1) as [v1|] eqn:E1.
  - apply assoc_text_In in E1 as Hin.
    specialize (H (w, v1) (in_or_app _ _ _ (or_introl Hin))). cbn [fst] in H.
    apply (opt_eqb_eq _ Heqb) in H. congruence.
  - destruct (assoc_text w l2) as [v2|] eqn:E2; [|reflexivity].
    apply assoc_text_In in E2 as Hin.
    specialize (H (w, v2) (in_or_app _ _ _ (or_intror Hin))). cbn [fst] in H.
    apply (opt_eqb_eq _ Heqb) in H. congruence.
Qed.

Definition N_tables_agree {A} (eqb : A -> A -> bool) (l1 l2 : list (N * A)) : bool :=
  forallb (fun p => opt_eqb eqb (assoc_N (fst p) l1) (assoc_N (fst p) l2)) (l1 ++ l2).

Lemma N_tables_agree_sound {A} (eqb : A -> A -> bool) (Heqb : forall u v, eqb u v = true -> u = v) l1 l2 :
  N_tables_agree eqb l1 l2 = true -> forall c, assoc_N c l1 = assoc_N c l2.
Proof.
  intros H c. unfold N_tables_agree in H. rewrite forallb_forall in H.
  destruct (assoc_N c l1) as [v1|] eqn:E1.
  - apply assoc_N_In in E1 as Hin.
    specialize (H (c, v1) (in_or_app _ _ _ (or_introl Hin))). cbn [fst] in H.
    apply (opt_eqb_eq _ Heqb) in H. congruence.
  - destruct (assoc_N c l2) as [v2|] eqn:E2; [|reflexivity].
    apply assoc_N_In in E2 as Hin.
    specialize (H (c, v2) (in_or_app _ _ _ (or_intror Hin))). cbn [fst] in H.
    apply (opt_eqb_eq _ Heqb) in H. congruence.
Qed.

Lemma tk_eqb_true u v : tk_eqb u v = true -> u = v.
Proof. apply tk_eqb_eq. Qed.

Lemma Neqb_true u v : (u =? v) = true -> u = v.
Proof. apply N.eqb_eq. Qed.

Lemma keywords_are_reference : forall w, assoc_text w keywords = assoc_text w ref_keywords.
Proof. apply (text_tables_agree_sound tk_eqb tk_eqb_true). vm_compute. reflexivity. Qed.

Lemma single_are_reference : forall c, assoc_N c single_char_tokens = assoc_N c ref_single.
Proof. apply (N_tables_agree_sound tk_eqb tk_eqb_true). vm_compute. reflexivity. Qed.

Lemma escapes_are_reference : forall c, assoc_N c escapes = assoc_N c ref_escapes.
Proof. apply (N_tables_agree_sound N.eqb Neqb_true). vm_compute. reflexivity. Qed.

Lemma end_set_is_reference : forall k, tk_in k end_set = tk_in k ref_end_set.
Proof. intro k. destruct k; reflexivity. Qed.

Definition N_set_incl (l1 l2 : list N) : bool := forallb (fun x => existsb (N.eqb x) l2) l1.

Lemma N_set_incl_sound l1 l2 c :
  N_set_incl l1 l2 = true -> existsb (N.eqb c) l1 = true -> existsb (N.eqb c) l2 = true.
Proof.
  intros H H1. unfold N_set_incl in H. rewrite forallb_forall in H.
  apply existsb_exists in H1 as [x [Hin Hx]]. apply N.eqb_eq in Hx. subst x. auto.
Qed.

Lemma blanks_are_reference : forall c, existsb (N.eqb c) blank_chars = existsb (N.eqb c) ref_blanks.
Proof.
  intro c.
  assert (H12 : N_set_incl blank_chars ref_blanks = true) by (vm_compute; reflexivity).
  assert (H21 : N_set_incl ref_blanks blank_chars = true) by (vm_compute; reflexivity).
  destruct (existsb (N.eqb c) blank_chars) eqn:E1.
  - symmetry. eapply N_set_incl_sound; eauto.
  - destruct (existsb (N.eqb c) ref_blanks) eqn:E2; [|reflexivity].
    rewrite (N_set_incl_sound _ _ _ H21 E2) in E1. discriminate.
Qed.

Lemma keywords_are_words : forall w k, In (w, k) keywords -> w <> [] /\ forallb ascii_alpha w = true.
Proof.
  assert (H : forallb (fun p => negb (text_eqb (fst p) []) && forallb ascii_alpha (fst p)) keywords = true)
    by (vm_compute; reflexivity).
  rewrite forallb_forall in H. intros w k Hin. specialize (H _ Hin). cbn [fst] in H.
  apply andb_true_iff in H as [H1 H2]. split; [|exact H2].
  intros ->. discriminate.
Qed.

(* the kinds of the reference keyword table *)
Definition word_kind (k : tk) : bool :=
  negb (tk_in k [TEof; TNumber; TStringLiteral; TSoftSemi]).

Lemma ref_keywords_kinds w k : assoc_text w ref_keywords = Some k -> word_kind k = true.
Proof.
  assert (H : forallb (fun p => word_kind (snd p)) ref_keywords = true) by (vm_compute; reflexivity).
  rewrite forallb_forall in H. intro E. apply assoc_text_In in E. apply (H _ E).
Qed.


(** * Pattern matches on character constants *)

Ltac split_pos p :=
  do 8 (try (destruct p as [p|p|])).

Lemma match_N47 {A} (d : N) (x y : A) :
  match d with 47 => x | _ => y end = if d =? 47 then x else y.
Proof. destruct d as [|p]; [reflexivity|]. split_pos p; reflexivity. Qed.

Lemma match_N10 {A} (d : N) (x y : A) :
  match d with 10 => x | _ => y end = if d =? 10 then x else y.
Proof. destruct d as [|p]; [reflexivity|]. split_pos p; reflexivity. Qed.

Lemma match_N46 {A} (d : N) (x y : A) :
  match d with 46 => x | _ => y end = if d =? 46 then x else y.
Proof. destruct d as [|p]; [reflexivity|]. split_pos p; reflexivity. Qed.

Lemma match_N92 {A} (d : N) (x y : A) :
  match d with 92 => x | _ => y end = if d =? 92 then x else y.
Proof. destruct d as [|p]; [reflexivity|]. split_pos p; reflexivity. Qed.

Lemma match_slash {A} (r : text) (f : text -> A) (y : A) :
  match r with 47 :: r' => f r' | _ => y end =
  match r with d :: r' => if d =? 47 then f r' else y | [] => y end.
Proof. destruct r as [|d r']; [reflexivity|]. rewrite <- match_N47. reflexivity. Qed.

Lemma match_nl {A} (r : text) (f : text -> A) (y : A) :
  match r with 10 :: r' => f r' | _ => y end =
  match r with d :: r' => if d =? 10 then f r' else y | [] => y end.
Proof. destruct r as [|d r']; [reflexivity|]. rewrite <- match_N10. reflexivity. Qed.

Lemma match_dot {A} (r : text) (f : N -> text -> A) (y : A) :
  match r with 46 :: d :: r' => f d r' | _ => y end =
  match r with e :: d :: r' => if e =? 46 then f d r' else y | _ => y end.
Proof.
  destruct r as [|e [|d r']]; [reflexivity| |].
  - transitivity (match e with 46 => y | _ => y end); [reflexivity|].
    rewrite match_N46. destruct (e =? 46); reflexivity.
  - rewrite <- match_N46. reflexivity.
Qed.

(** * span *)

Lemma span_spec p s a b : span p s = (a, b) ->
  s = a ++ b /\ forallb p a = true /\ starts_with_p p b = false.
Proof.
  revert a b. induction s as [|c r IH]; cbn [span]; intros a b H.
  - inversion H; subst. auto.
  - destruct (p c) eqn:E.
    + destruct (span p r) as [a' b'] eqn:E2. inversion H; subst.
      destruct (IH _ _ eq_refl) as [-> [H1 H2]]. cbn [forallb app]. rewrite E. auto.
    + inversion H; subst. cbn. auto.
Qed.

Lemma span_app p a b : forallb p a = true -> starts_with_p p b = false -> span p (a ++ b) = (a, b).
Proof.
  induction a as [|c a IH]; cbn [forallb app]; intros Ha Hb.
  - destruct b as [|c r]; cbn in *; [reflexivity|]. rewrite Hb. reflexivity.
  - apply andb_true_iff in Ha as [Hc Ha]. cbn [span]. rewrite Hc, IH; auto.
Qed.

Lemma is_digit_eq : is_digit = ascii_digit.
Proof. reflexivity. Qed.

Lemma id_char_eq a : id_char a = ident_char a.
Proof. reflexivity. Qed.

(** * The characters with a dedicated scanner branch *)

Definition specials : list N :=
  [40; 41; 91; 93; 123; 125; 44; 46; 45; 43; 42; 59; 33; 61; 60; 62; 47; 92; 32; 13; 9; 10; 34].
Definition special (c : N) : bool := existsb (N.eqb c) specials.

Lemma special_cases c : special c = true -> In c specials.
Proof.
  intro H. apply existsb_exists in H as [x [Hin Hx]]. apply N.eqb_eq in Hx. subst; exact Hin.
Qed.

Lemma special_not_alnum a c : ascii_ok a -> special c = true -> a c = false /\ ascii_digit c = false.
Proof.
  intros Ha H. apply special_cases in H. cbn [In specials] in H.
  repeat (destruct H as [H|H]; [subst c; split; [rewrite Ha by reflexivity|]; reflexivity|]).
  contradiction.
Qed.

Lemma digit_not_special c : ascii_digit c = true -> special c = false.
Proof.
  intro H. destruct (special c) eqn:E; [|reflexivity].
  apply special_cases in E. cbn [In specials] in E.
  repeat (destruct E as [E|E]; [subst c; discriminate H|]). contradiction.
Qed.

Lemma alnum_not_special a c : ascii_ok a -> a c = true -> special c = false.
Proof.
  intros Ha H. destruct (special c) eqn:E; [|reflexivity].
  apply (special_not_alnum a c Ha) in E as [E _]. congruence.
Qed.

(* the tail of scan_token: numbers, words, unknown characters *)
Definition scan_plain (a : N -> bool) (c : N) (r : text) (off : N) : scan_result :=
  if ascii_digit c then
    let '(ds, rest) := span ascii_digit r in
    match rest with
    | 46 :: d :: rest' =>
      if ascii_digit d then
        let '(fs, rest'') := span ascii_digit rest' in
        STok (mk TNumber off ((c :: ds) ++ 46 :: d :: fs) (LNum (literal_float (c :: ds) (d :: fs)))) rest''
      else STok (mk TNumber off (c :: ds) (LNum (literal_float (c :: ds) []))) rest
    | _ => STok (mk TNumber off (c :: ds) (LNum (literal_float (c :: ds) []))) rest
    end
  else if a c then
    let '(cs, rest) := span (ident_char a) r in
    let lexeme := c :: cs in
    match assoc_text lexeme keywords with
    | Some k => STok (mk k off lexeme LNone) rest
    | None => STok (mk TIdentifier off lexeme LNone) rest
    end
  else SErr (mkLexError EUnknownSymbol [(off, utf8_len c)]) [c] r.

Lemma scan_token_plain a c r off prev : special c = false ->
  scan_token a c r off prev = scan_plain a c r off.
Proof.
  intro H. unfold special, specials in H. cbn [existsb] in H.
  repeat (apply orb_false_iff in H as [? H]).
  unfold scan_token, scan_plain.
  rewrite single_are_reference, blanks_are_reference.
  unfold ref_single, compound_tokens, ref_blanks. cbn [assoc_N existsb].
  repeat match goal with E : (c =? _) = false |- _ => rewrite E; clear E end.
  reflexivity.
Qed.

Lemma scan_single a c k r off prev : assoc_N c ref_single = Some k ->
  scan_token a c r off prev = STok (mk k off [c] LNone) r.
Proof. intro H. unfold scan_token. rewrite single_are_reference, H. reflexivity. Qed.

Lemma scan_bang a r off prev : scan_token a 33 r off prev =
  match r with
  | d :: r' => if d =? 61 then STok (mk TBangEqual off [33; 61] LNone) r'
               else SErr (mkLexError EBang [(off, 1)]) [33] r
  | [] => SErr (mkLexError EBang [(off, 1)]) [33] r
  end.
Proof. destruct r as [|d r']; [reflexivity|]. unfold scan_token. cbn [assoc_N single_char_tokens compound_tokens N.eqb Pos.eqb]. destruct (d =? 61) eqn:E; [apply N.eqb_eq in E; subst d|]; reflexivity. Qed.

Lemma scan_eq a r off prev : scan_token a 61 r off prev =
  match r with
  | d :: r' => if d =? 61 then STok (mk TEqualEqual off [61; 61] LNone) r'
               else SErr (mkLexError EEquals [(off, 1)]) [61] r
  | [] => SErr (mkLexError EEquals [(off, 1)]) [61] r
  end.
Proof. destruct r as [|d r']; [reflexivity|]. unfold scan_token. cbn [assoc_N single_char_tokens compound_tokens N.eqb Pos.eqb]. destruct (d =? 61) eqn:E; [apply N.eqb_eq in E; subst d|]; reflexivity. Qed.

Lemma scan_lt a r off prev : scan_token a 60 r off prev =
  match r with
  | d :: r' => if d =? 61 then STok (mk TLessEqual off [60; 61] LNone) r'
               else if d =? 45 then STok (mk TArrow off [60; 45] LNone) r'
               else STok (mk TLess off [60] LNone) r
  | [] => STok (mk TLess off [60] LNone) r
  end.
Proof. destruct r as [|d r']; [reflexivity|]. unfold scan_token. cbn [assoc_N single_char_tokens compound_tokens N.eqb Pos.eqb]. destruct (d =? 61) eqn:E; [apply N.eqb_eq in E; subst d; reflexivity|]. destruct (d =? 45) eqn:E2; [apply N.eqb_eq in E2; subst d|]; reflexivity. Qed.

Lemma scan_gt a r off prev : scan_token a 62 r off prev =
  match r with
  | d :: r' => if d =? 61 then STok (mk TGreaterEqual off [62; 61] LNone) r'
               else STok (mk TGreater off [62] LNone) r
  | [] => STok (mk TGreater off [62] LNone) r
  end.
Proof. destruct r as [|d r']; [reflexivity|]. unfold scan_token. cbn [assoc_N single_char_tokens compound_tokens N.eqb Pos.eqb]. destruct (d =? 61) eqn:E; [apply N.eqb_eq in E; subst d|]; reflexivity. Qed.

Lemma scan_slash a r off prev : scan_token a 47 r off prev =
  match r with
  | d :: r' => if d =? 47 then let '(body, rest) := span (fun x => negb (x =? 10)) r' in SSkip (47 :: 47 :: body) rest
               else STok (mk TSlash off [47] LNone) r
  | [] => STok (mk TSlash off [47] LNone) r
  end.
Proof.
  rewrite <- (match_slash r (fun r' => let '(body, rest) := span (fun x => negb (x =? 10)) r' in SSkip (47 :: 47 :: body) rest)).
  reflexivity.
Qed.

Lemma scan_back a r off prev : scan_token a 92 r off prev =
  match r with
  | d :: r' => if d =? 10 then SSkip [92; 10] r' else SErr (mkLexError EBackslash [(off, 1)]) [92] r
  | [] => SErr (mkLexError EBackslash [(off, 1)]) [92] r
  end.
Proof. rewrite <- (match_nl r (fun r' => SSkip [92; 10] r')). reflexivity. Qed.

Lemma scan_blank a c r off prev : In c ref_blanks -> scan_token a c r off prev = SSkip [c] r.
Proof.
  intro H. cbn [In ref_blanks] in H.
  repeat (destruct H as [H|H]; [subst c; reflexivity|]). contradiction.
Qed.

Lemma scan_newline a r off prev : scan_token a 10 r off prev =
  if (match prev with Some k => tk_in k ref_end_set | None => false end)
  then STok (mk TSoftSemi off [10] LNone) r else SSkip [10] r.
Proof.
  destruct prev as [k|]; [|reflexivity].
  rewrite <- end_set_is_reference. reflexivity.
Qed.

Lemma scan_quote a r off prev : scan_token a 34 r off prev =
  match string_body r [] [] with
  | StrOk v raw rest => STok (mk TStringLiteral off (34 :: raw) (LStr v)) rest
  | StrBadEscape raw rest => SErr (mkLexError EInvalidEscape []) (34 :: raw) rest
  | StrUnterminated raw =>
    SErr (mkLexError EUnterminated [(off, 0); (off, byte_len (34 :: raw))]) (34 :: raw) []
  end.
Proof. reflexivity. Qed.

(** * Strings *)

Lemma unescape_cons c r : unescape (c :: r) =
  if c =? 92 then
    match r with
    | [] => None
    | e :: r' => match assoc_N e ref_escapes, unescape r' with
                 | Some v, Some t => Some (v :: t)
                 | _, _ => None
                 end
    end
  else if c =? 34 then None else option_map (cons c) (unescape r).
Proof.
  destruct (c =? 92) eqn:E.
  - apply N.eqb_eq in E. subst c. destruct r; reflexivity.
  - destruct c as [|p]; [destruct r; reflexivity|].
    split_pos p; try discriminate E; destruct r; reflexivity.
Qed.

Lemma string_body_spec n : forall s value raw, (length s <= n)%nat ->
  match string_body s value raw with
  | StrOk v rw rest => exists body vb, s = body ++ 34 :: rest /\ unescape body = Some vb /\
                                       v = rev value ++ vb /\ rw = rev raw ++ body ++ [34]
  | StrBadEscape rw rest => exists w, s = w ++ rest /\ rw = rev raw ++ w /\ w <> []
  | StrUnterminated rw => rw = rev raw ++ s
  end.
Proof.
  induction n as [|n IH]; intros s value raw Hlen.
  - destruct s; [|cbn in Hlen; lia]. cbn. rewrite app_nil_r. reflexivity.
  - destruct s as [|c r]; [cbn; rewrite app_nil_r; reflexivity|].
    cbn [length] in Hlen. cbn [string_body].
    destruct (c =? 34) eqn:E34.
    { apply N.eqb_eq in E34. subst c. exists [], []. cbn [rev app]. rewrite app_nil_r. auto. }
    destruct (c =? 92) eqn:E92.
    { apply N.eqb_eq in E92. subst c. destruct r as [|e r'].
      - exists [92]. cbn [rev app]. repeat split; congruence.
      - rewrite escapes_are_reference. destruct (assoc_N e ref_escapes) as [v0|] eqn:Ee.
        + cbn [length] in Hlen.
          specialize (IH r' (v0 :: value) (e :: 92 :: raw) ltac:(lia)).
          destruct (string_body r' (v0 :: value) (e :: 92 :: raw)) as [v rw rest|rw rest|rw].
          * destruct IH as [body [vb [-> [Hun [-> ->]]]]].
            exists (92 :: e :: body), (v0 :: vb). repeat split.
            -- rewrite unescape_cons. cbn [N.eqb Pos.eqb]. rewrite Ee, Hun. reflexivity.
            -- cbn [rev]. rewrite <- app_assoc. reflexivity.
            -- cbn [rev]. rewrite <- !app_assoc. reflexivity.
          * destruct IH as [w [-> [-> Hw]]]. exists (92 :: e :: w). repeat split.
            -- cbn [rev]. rewrite <- !app_assoc. reflexivity.
            -- discriminate.
          * subst rw. cbn [rev]. rewrite <- !app_assoc. reflexivity.
        + exists [92]. cbn [rev app]. repeat split; congruence. }
    specialize (IH r (c :: value) (c :: raw) ltac:(lia)).
    destruct (string_body r (c :: value) (c :: raw)) as [v rw rest|rw rest|rw].
    + destruct IH as [body [vb [-> [Hun [-> ->]]]]].
      exists (c :: body), (c :: vb). repeat split.
      * rewrite unescape_cons, E92, E34, Hun. reflexivity.
      * cbn [rev]. rewrite <- app_assoc. reflexivity.
      * cbn [rev]. rewrite <- !app_assoc. reflexivity.
    + destruct IH as [w [-> [-> Hw]]]. exists (c :: w). repeat split.
      * cbn [rev]. rewrite <- !app_assoc. reflexivity.
      * discriminate.
    + subst rw. cbn [rev]. rewrite <- !app_assoc. reflexivity.
Qed.

Lemma string_body_complete n : forall body v rest value raw, (length body <= n)%nat ->
  unescape body = Some v ->
  string_body (body ++ 34 :: rest) value raw = StrOk (rev value ++ v) (rev raw ++ body ++ [34]) rest.
Proof.
  induction n as [|n IH]; intros body v rest value raw Hlen Hun.
  - destruct body; [|cbn in Hlen; lia]. cbn in Hun. inversion Hun; subst.
    cbn [app string_body N.eqb Pos.eqb rev]. rewrite app_nil_r. reflexivity.
  - destruct body as [|c r].
    { cbn in Hun. inversion Hun; subst.
      cbn [app string_body N.eqb Pos.eqb rev]. rewrite app_nil_r. reflexivity. }
    cbn [length] in Hlen. rewrite unescape_cons in Hun. cbn [app string_body].
    destruct (c =? 92) eqn:E92.
    + apply N.eqb_eq in E92. subst c. cbn [N.eqb Pos.eqb].
      destruct r as [|e r']; [discriminate|]. cbn [app]. rewrite escapes_are_reference.
      destruct (assoc_N e ref_escapes) as [v0|]; [|discriminate].
      destruct (unescape r') as [t|] eqn:Hun'; [|discriminate]. inversion Hun; subst v.
      cbn [length] in Hlen. rewrite (IH r' t rest (v0 :: value) (e :: 92 :: raw) ltac:(lia) Hun').
      cbn [rev]. rewrite <- !app_assoc. reflexivity.
    + destruct (c =? 34) eqn:E34; [discriminate|].
      destruct (unescape r) as [t|] eqn:Hun'; [|discriminate]. cbn in Hun. inversion Hun; subst v.
      rewrite (IH r t rest (c :: value) (c :: raw) ltac:(lia) Hun').
      cbn [rev]. rewrite <- !app_assoc. reflexivity.
Qed.

Lemma string_body_err a n : forall s value raw, (length s <= n)%nat ->
  match string_body s value raw with
  | StrOk _ _ rest => err_from a QStr s = err_from a QCode rest
  | _ => err_from a QStr s = true
  end.
Proof.
  induction n as [|n IH]; intros s value raw Hlen.
  - destruct s; [|cbn in Hlen; lia]. reflexivity.
  - destruct s as [|c r]; [reflexivity|].
    cbn [length] in Hlen. cbn [string_body err_from].
    destruct (c =? 34); [reflexivity|].
    destruct (c =? 92).
    + destruct r as [|e r']; [reflexivity|].
      cbn [length] in Hlen. cbn [err_from].
      rewrite escapes_are_reference. unfold ref_escapes. cbn [assoc_N existsb].
      destruct (e =? 110), (e =? 114), (e =? 116), (e =? 92), (e =? 34); cbn [orb];
        try reflexivity; apply IH; lia.
    + apply IH; lia.
Qed.

(** * One token *)

Lemma Tok_facts a prev off w rest t : Tok a prev off w rest t ->
  tlex t = w /\ toff t = off /\ tlen t = byte_len w /\ w <> [] /\ tkind t <> TEof.
Proof.
  intro H. inversion H; subst; cbn [tlex toff tlen tkind];
    try (repeat split; try reflexivity; discriminate).
  - (* single *)
    match goal with E : assoc_N _ ref_single = Some _ |- _ => apply assoc_N_In in E; cbn [In ref_single] in E;
      repeat (destruct E as [E|E]; [inversion E; subst; repeat split; try reflexivity; discriminate|]);
      contradiction end.
  - (* int *) repeat split; try reflexivity; try assumption; discriminate.
  - (* frac *) repeat split; try reflexivity; try discriminate.
    match goal with |- ?ds ++ _ <> [] => destruct ds; discriminate end.
  - (* word *) repeat split; try reflexivity; try discriminate.
    destruct (assoc_text (c :: cs) ref_keywords) as [kw|] eqn:E; [|discriminate].
    apply ref_keywords_kinds in E. intros ->. discriminate.
Qed.

Lemma Trivia_nonempty prev w rest : Trivia prev w rest -> w <> [].
Proof. intro H; inversion H; discriminate. Qed.

Lemma code_step_plain a c : special c = false ->
  code_step a c = if is_digit c then Some QNum else if a c then Some QWord else None.
Proof.
  intro H. unfold special, specials in H. cbn [existsb] in H.
  repeat (apply orb_false_iff in H as [? H]).
  unfold code_step. cbn [existsb].
  repeat match goal with E : (c =? _) = false |- _ => rewrite E; clear E end.
  reflexivity.
Qed.

Lemma err_code_cons a c r : err_from a QCode (c :: r) =
  match code_step a c with Some q' => err_from a q' r | None => true end.
Proof. reflexivity. Qed.

Lemma scan_plain_sound a c r off prev :
  match scan_plain a c r off with
  | STok t rest => exists w, c :: r = w ++ rest /\ Tok a prev off w rest t
  | SSkip w rest => False
  | SErr e w rest => w = [c] /\ rest = r /\ e = mkLexError EUnknownSymbol [(off, utf8_len c)] /\
                     ascii_digit c = false /\ a c = false
  end.
Proof.
  unfold scan_plain. destruct (ascii_digit c) eqn:Ed.
  - destruct (span ascii_digit r) as [ds rest] eqn:Es. apply span_spec in Es as [-> [Hds Hrest]].
    assert (Hint : (match rest with 46 :: d :: _ => is_digit d | _ => false end) = false ->
                   exists w, c :: ds ++ rest = w ++ rest /\
                     Tok a prev off w rest (mk TNumber off (c :: ds) (LNum (literal_float (c :: ds) [])))).
    { intro Hside. exists (c :: ds). split; [reflexivity|]. unfold mk. apply K_int; auto.
      - discriminate.
      - cbn [forallb]. rewrite is_digit_eq, Ed, Hds. reflexivity. }
    rewrite match_dot. rewrite (match_dot rest (fun d _ => is_digit d)) in Hint.
    destruct rest as [|e [|d rest']]; [apply Hint; reflexivity|apply Hint; reflexivity|].
    destruct (e =? 46) eqn:Ee; [|apply Hint; reflexivity].
    apply N.eqb_eq in Ee. subst e.
    destruct (ascii_digit d) eqn:Edd; [|apply Hint; exact Edd].
    destruct (span ascii_digit rest') as [fs rest''] eqn:Es2.
    apply span_spec in Es2 as [-> [Hfs Hr'']].
    exists ((c :: ds) ++ 46 :: d :: fs). split.
    + cbn [app]. rewrite <- app_assoc. reflexivity.
    + unfold mk. apply K_frac; auto; try discriminate.
      * cbn [forallb]. rewrite is_digit_eq, Ed, Hds. reflexivity.
      * cbn [forallb]. rewrite is_digit_eq, Edd, Hfs. reflexivity.
  - destruct (a c) eqn:Ea; [|auto].
    destruct (span (ident_char a) r) as [cs rest] eqn:Es. apply span_spec in Es as [-> [Hcs Hrest]].
    cbv zeta. rewrite keywords_are_reference.
    assert (Hw : forall k, k = match assoc_text (c :: cs) ref_keywords with Some kw => kw | None => TIdentifier end ->
              exists w, c :: cs ++ rest = w ++ rest /\ Tok a prev off w rest (mk k off (c :: cs) LNone)).
    { intros k Hk. exists (c :: cs). split; [reflexivity|]. unfold mk. apply K_word; auto. }
    destruct (assoc_text (c :: cs) ref_keywords) as [kw|]; apply Hw; reflexivity.
Qed.

Definition step_ok (a : N -> bool) (c : N) (r : text) (off : N) (prev : option tk) (res : scan_result) : Prop :=
  match res with
  | STok t rest => exists w, c :: r = w ++ rest /\ Tok a prev off w rest t
  | SSkip w rest => c :: r = w ++ rest /\ Trivia prev w rest
  | SErr e w rest =>
      c :: r = w ++ rest /\ w <> [] /\
      (forall l, In l (elabels e) ->
         exists mid post, c :: r = mid ++ post /\ fst l = off /\ byte_len mid = snd l) /\
      (ascii_ok a -> err_from a QCode (c :: r) = true)
  end.

Ltac one_label :=
  let l := fresh "l" in let Hl := fresh "Hl" in
  intros l Hl; cbn [elabels In] in Hl; destruct Hl as [<-|[]].

Lemma scan_token_sound a c r off prev : step_ok a c r off prev (scan_token a c r off prev).
Proof.
  destruct (special c) eqn:Hs.
  2:{ rewrite (scan_token_plain a c r off prev Hs).
      pose proof (scan_plain_sound a c r off prev) as H.
      destruct (scan_plain a c r off) as [t rest|w rest|e w rest]; cbn [step_ok]; [exact H|contradiction|].
      destruct H as [-> [-> [-> [Hd Ha]]]]. split; [reflexivity|]. split; [discriminate|]. split.
      - one_label. exists [c], r. cbn [fst snd byte_len]. repeat split. lia.
      - intros _. rewrite err_code_cons, (code_step_plain a c Hs), is_digit_eq, Hd, Ha. reflexivity. }
  apply special_cases in Hs. cbn [In specials] in Hs.
  (* the twelve single-character tokens *)
  do 12 (destruct Hs as [Hs|Hs];
         [subst c; erewrite scan_single by reflexivity; cbn [step_ok];
          match goal with |- exists w, ?c :: _ = _ /\ _ => exists [c] end;
          split; [reflexivity|apply K_single; reflexivity]|]).
  destruct Hs as [Hs|Hs].
  { (* ! *) subst c. rewrite scan_bang.
    destruct r as [|d r'].
    - cbn [step_ok]. split; [reflexivity|]. split; [discriminate|]. split.
      + one_label. exists [33], []. repeat split.
      + intros _. reflexivity.
    - destruct (d =? 61) eqn:E.
      + apply N.eqb_eq in E. subst d. exists [33; 61]. split; [reflexivity|]. apply K_bangeq.
      + cbn [step_ok]. split; [reflexivity|]. split; [discriminate|]. split.
        * one_label. exists [33], (d :: r'). repeat split.
        * intros _. change (err_from a QBang (d :: r') = true). cbn [err_from]. rewrite E. reflexivity. }
  destruct Hs as [Hs|Hs].
  { (* = *) subst c. rewrite scan_eq.
    destruct r as [|d r'].
    - cbn [step_ok]. split; [reflexivity|]. split; [discriminate|]. split.
      + one_label. exists [61], []. repeat split.
      + intros _. reflexivity.
    - destruct (d =? 61) eqn:E.
      + apply N.eqb_eq in E. subst d. exists [61; 61]. split; [reflexivity|]. apply K_eqeq.
      + cbn [step_ok]. split; [reflexivity|]. split; [discriminate|]. split.
        * one_label. exists [61], (d :: r'). repeat split.
        * intros _. change (err_from a QEq (d :: r') = true). cbn [err_from]. rewrite E. reflexivity. }
  destruct Hs as [Hs|Hs].
  { (* < *) subst c. rewrite scan_lt.
    destruct r as [|d r'].
    - exists [60]. split; [reflexivity|]. apply K_lt. reflexivity.
    - destruct (d =? 61) eqn:E.
      { apply N.eqb_eq in E. subst d. exists [60; 61]. split; [reflexivity|]. apply K_le. }
      destruct (d =? 45) eqn:E2.
      { apply N.eqb_eq in E2. subst d. exists [60; 45]. split; [reflexivity|]. apply K_arrow. }
      exists [60]. split; [reflexivity|]. apply K_lt. cbn [starts_with_p]. rewrite E, E2. reflexivity. }
  destruct Hs as [Hs|Hs].
  { (* > *) subst c. rewrite scan_gt.
    destruct r as [|d r'].
    - exists [62]. split; [reflexivity|]. apply K_gt. reflexivity.
    - destruct (d =? 61) eqn:E.
      { apply N.eqb_eq in E. subst d. exists [62; 61]. split; [reflexivity|]. apply K_ge. }
      exists [62]. split; [reflexivity|]. apply K_gt. cbn [starts_with_p]. exact E. }
  destruct Hs as [Hs|Hs].
  { (* / *) subst c. rewrite scan_slash.
    destruct r as [|d r'].
    - exists [47]. split; [reflexivity|]. apply K_slash. reflexivity.
    - destruct (d =? 47) eqn:E.
      + apply N.eqb_eq in E. subst d.
        destruct (span (fun x => negb (x =? 10)) r') as [body rest] eqn:Es.
        apply span_spec in Es as [-> [Hb Hr]]. cbn [step_ok]. split; [reflexivity|].
        apply T_comment; assumption.
      + exists [47]. split; [reflexivity|]. apply K_slash. cbn [starts_with_p]. exact E. }
  destruct Hs as [Hs|Hs].
  { (* \ *) subst c. rewrite scan_back.
    destruct r as [|d r'].
    - cbn [step_ok]. split; [reflexivity|]. split; [discriminate|]. split.
      + one_label. exists [92], []. repeat split.
      + intros _. reflexivity.
    - destruct (d =? 10) eqn:E.
      + apply N.eqb_eq in E. subst d. cbn [step_ok]. split; [reflexivity|]. apply T_continuation.
      + cbn [step_ok]. split; [reflexivity|]. split; [discriminate|]. split.
        * one_label. exists [92], (d :: r'). repeat split.
        * intros _. change (err_from a QBack (d :: r') = true). cbn [err_from]. rewrite E. reflexivity. }
  (* blanks *)
  do 3 (destruct Hs as [Hs|Hs];
        [subst c; rewrite scan_blank by (cbn; auto); cbn [step_ok]; split; [reflexivity|];
         apply T_blank; cbn; auto|]).
  destruct Hs as [Hs|Hs].
  { (* newline *) subst c. rewrite scan_newline.
    destruct (match prev with Some k => tk_in k ref_end_set | None => false end) eqn:E.
    - destruct prev as [k|]; [|discriminate]. exists [10]. split; [reflexivity|].
      apply (K_newline a (Some k) off k r eq_refl E).
    - cbn [step_ok]. split; [reflexivity|]. apply T_newline. exact E. }
  destruct Hs as [Hs|[]].
  (* string *)
  subst c. rewrite scan_quote.
  pose proof (string_body_spec (length r) r [] [] (le_n _)) as Hsp.
  pose proof (string_body_err a (length r) r [] [] (le_n _)) as Her.
  destruct (string_body r [] []) as [v rw rest|rw rest|rw]; cbn [step_ok].
  - destruct Hsp as [body [vb [-> [Hun [-> ->]]]]]. cbn [rev app].
    exists (34 :: body ++ [34]). split.
    + cbn [app]. rewrite <- app_assoc. reflexivity.
    + unfold mk. apply K_string. exact Hun.
  - destruct Hsp as [w [-> [-> Hw]]]. cbn [rev app]. split; [reflexivity|]. split; [discriminate|]. split.
    + intros l [].
    + intros _. exact Her.
  - subst rw. cbn [rev app]. split; [rewrite app_nil_r; reflexivity|]. split; [discriminate|]. split.
    + intros l Hl. cbn [elabels In] in Hl. destruct Hl as [<-|[<-|[]]].
      * exists [], (34 :: r). repeat split.
      * exists (34 :: r), []. rewrite app_nil_r. repeat split.
    + intros _. exact Her.
Qed.

Lemma Tok_complete a prev off w rest t : ascii_ok a -> Tok a prev off w rest t ->
  exists c r, w ++ rest = c :: r /\ scan_token a c r off prev = STok t rest.
Proof.
  intros Ha H. inversion H; subst.
  - (* single *)
    match goal with E : assoc_N _ ref_single = Some _ |- _ => apply assoc_N_In in E; cbn [In ref_single] in E;
      repeat (destruct E as [E|E]; [inversion E; subst; eexists _, rest; split; reflexivity|]);
      contradiction end.
  - exists 33, (61 :: rest). split; [reflexivity|]. rewrite scan_bang. reflexivity.
  - exists 61, (61 :: rest). split; [reflexivity|]. rewrite scan_eq. reflexivity.
  - exists 60, (61 :: rest). split; [reflexivity|]. rewrite scan_lt. reflexivity.
  - exists 60, (45 :: rest). split; [reflexivity|]. rewrite scan_lt. reflexivity.
  - exists 60, rest. split; [reflexivity|]. rewrite scan_lt.
    destruct rest as [|d r']; [reflexivity|].
    match goal with E : starts_with_p _ _ = false |- _ => cbn [starts_with_p] in E;
      apply orb_false_iff in E as [-> ->] end. reflexivity.
  - exists 62, (61 :: rest). split; [reflexivity|]. rewrite scan_gt. reflexivity.
  - exists 62, rest. split; [reflexivity|]. rewrite scan_gt.
    destruct rest as [|d r']; [reflexivity|].
    match goal with E : starts_with_p _ _ = false |- _ => cbn [starts_with_p] in E; rewrite E end.
    reflexivity.
  - exists 47, rest. split; [reflexivity|]. rewrite scan_slash.
    destruct rest as [|d r']; [reflexivity|].
    match goal with E : starts_with_p _ _ = false |- _ => cbn [starts_with_p] in E; rewrite E end.
    reflexivity.
  - exists 10, rest. split; [reflexivity|]. rewrite scan_newline.
    match goal with E : tk_in _ ref_end_set = true |- _ => rewrite E end. reflexivity.
  - (* string *)
    exists 34, (body ++ 34 :: rest). split.
    + cbn [app]. rewrite <- app_assoc. reflexivity.
    + rewrite scan_quote.
      match goal with E : unescape body = Some _ |- _ =>
        rewrite (string_body_complete (length body) body _ rest [] [] (le_n _) E) end.
      reflexivity.
  - (* int *)
    rename H0 into Hne, H1 into Hall, H2 into Hrest, H3 into Hside.
    destruct w as [|d0 ds']; [contradiction|]. cbn [forallb] in Hall.
    apply andb_true_iff in Hall as [Hd0 Hall]. rewrite is_digit_eq in Hd0, Hall, Hrest.
    exists d0, (ds' ++ rest). split; [reflexivity|].
    rewrite (scan_token_plain a d0 _ off prev (digit_not_special _ Hd0)).
    unfold scan_plain. rewrite Hd0, (span_app _ _ _ Hall Hrest).
    rewrite match_dot. rewrite (match_dot rest (fun d _ => is_digit d)) in Hside.
    destruct rest as [|e [|d rest']]; try reflexivity.
    destruct (e =? 46); [|reflexivity]. rewrite is_digit_eq in Hside. rewrite Hside. reflexivity.
  - (* frac *)
    rename H0 into Hne, H1 into Hall, H2 into Hnf, H3 into Hallf, H4 into Hrest.
    destruct ds as [|d0 ds']; [contradiction|]. destruct fs as [|f0 fs']; [contradiction|].
    cbn [forallb] in Hall, Hallf.
    apply andb_true_iff in Hall as [Hd0 Hall]. apply andb_true_iff in Hallf as [Hf0 Hallf].
    rewrite is_digit_eq in Hd0, Hall, Hrest, Hf0, Hallf.
    exists d0, (ds' ++ 46 :: f0 :: fs' ++ rest). split.
    + cbn [app]. rewrite <- app_assoc. reflexivity.
    + rewrite (scan_token_plain a d0 _ off prev (digit_not_special _ Hd0)).
      unfold scan_plain. rewrite Hd0.
      rewrite (span_app ascii_digit ds' (46 :: f0 :: fs' ++ rest) Hall eq_refl).
      rewrite Hf0, (span_app _ _ _ Hallf Hrest). reflexivity.
  - (* word *)
    rename H0 into Hac, H1 into Hnd, H2 into Hcs, H3 into Hrest.
    exists c, (cs ++ rest). split; [reflexivity|].
    rewrite (scan_token_plain a c _ off prev (alnum_not_special a c Ha Hac)).
    unfold scan_plain. rewrite is_digit_eq in Hnd. rewrite Hnd, Hac.
    rewrite (span_app (ident_char a) cs rest Hcs Hrest). cbv zeta.
    rewrite keywords_are_reference.
    destruct (assoc_text (c :: cs) ref_keywords); reflexivity.
Qed.

Lemma Trivia_complete a prev off w rest : Trivia prev w rest ->
  exists c r, w ++ rest = c :: r /\ scan_token a c r off prev = SSkip w rest.
Proof.
  intro H. inversion H; subst.
  - exists c, rest. split; [reflexivity|]. apply scan_blank. assumption.
  - exists 47, (47 :: body ++ rest). split; [reflexivity|]. rewrite scan_slash. cbn [N.eqb Pos.eqb].
    rewrite (span_app _ body rest H0 H1). reflexivity.
  - exists 92, (10 :: rest). split; [reflexivity|]. rewrite scan_back. reflexivity.
  - exists 10, rest. split; [reflexivity|]. rewrite scan_newline. rewrite H0. reflexivity.
Qed.

(** * The scanning loop *)

Definition res_rest (res : scan_result) : text :=
  match res with STok _ rest | SSkip _ rest | SErr _ _ rest => rest end.

Lemma app_nonempty_len {A} (w rest : list A) c r : c :: r = w ++ rest -> w <> [] ->
  (length rest <= length r)%nat.
Proof.
  intros Heq Hne. apply (f_equal (@length A)) in Heq. rewrite app_length in Heq.
  destruct w; [contradiction|]. cbn [length] in Heq. lia.
Qed.

Lemma step_len a c r off prev : (length (res_rest (scan_token a c r off prev)) <= length r)%nat.
Proof.
  pose proof (scan_token_sound a c r off prev) as H.
  destruct (scan_token a c r off prev) as [t rest|w rest|e w rest]; cbn [step_ok res_rest] in *.
  - destruct H as [w [Heq HT]]. apply Tok_facts in HT as (_ & _ & _ & Hne & _).
    eapply app_nonempty_len; eauto.
  - destruct H as [Heq HT]. apply Trivia_nonempty in HT. eapply app_nonempty_len; eauto.
  - destruct H as (Heq & Hne & _). eapply app_nonempty_len; eauto.
Qed.

Lemma scan_fuel a : forall f s off last prev toks errs, (length s <= f)%nat ->
  exists ts es, scan a f s off last prev toks errs = Ok (ts, es).
Proof.
  induction f as [|f IH]; intros s off last prev toks errs Hlen.
  - destruct s; [|cbn in Hlen; lia]. cbn. eauto.
  - destruct s as [|c r]; [cbn; eauto|]. cbn [length] in Hlen. cbn [scan].
    pose proof (step_len a c r off prev) as Hl.
    destruct (scan_token a c r off prev) as [t rest|w rest|e w rest]; cbn [res_rest] in Hl;
      apply IH; lia.
Qed.

Lemma scan_acc a : forall f s off last prev toks errs ts es,
  scan a f s off last prev toks errs = Ok (ts, es) ->
  exists ts' es', ts = rev toks ++ ts' /\ es = rev errs ++ es'.
Proof.
  induction f as [|f IH]; intros s off last prev toks errs ts es H.
  - destruct s; [|discriminate]. cbn in H. inversion H; subst.
    eexists _, []. split; [reflexivity|rewrite app_nil_r; reflexivity].
  - destruct s as [|c r].
    + cbn in H. inversion H; subst. eexists _, []. split; [reflexivity|rewrite app_nil_r; reflexivity].
    + cbn [scan] in H.
      destruct (scan_token a c r off prev) as [t rest|w rest|e w rest];
        apply IH in H as [ts' [es' [-> ->]]].
      * exists (t :: ts'), es'. cbn [rev]. rewrite <- app_assoc. split; reflexivity.
      * eauto.
      * exists ts', (e :: es'). cbn [rev]. rewrite <- app_assoc. split; reflexivity.
Qed.

Lemma scan_sound a : forall f s off last prev toks ts,
  scan a f s off last prev toks [] = Ok (ts, []) ->
  exists ts', ts = rev toks ++ ts' /\ Lexes a prev off last s ts'.
Proof.
  induction f as [|f IH]; intros s off last prev toks ts H.
  - destruct s; [|discriminate]. cbn in H. inversion H; subst.
    eexists. split; [reflexivity|]. apply L_eof.
  - destruct s as [|c r].
    + cbn in H. inversion H; subst. eexists. split; [reflexivity|]. apply L_eof.
    + cbn [scan] in H. pose proof (scan_token_sound a c r off prev) as Hst.
      destruct (scan_token a c r off prev) as [t rest|w rest|e w rest]; cbn [step_ok] in Hst.
      * destruct Hst as [w [Heq HT]]. apply IH in H as [ts' [-> HL]].
        exists (t :: ts'). split; [cbn [rev]; rewrite <- app_assoc; reflexivity|].
        rewrite Heq. apply L_token; [exact HT|].
        apply Tok_facts in HT as (_ & _ & Hlen & _). rewrite <- Hlen. exact HL.
      * destruct Hst as [Heq HT]. apply IH in H as [ts' [-> HL]].
        exists ts'. split; [reflexivity|]. rewrite Heq. apply L_trivia; assumption.
      * apply scan_acc in H as [ts' [es' [_ Hes]]]. cbn [rev app] in Hes. discriminate.
Qed.

Lemma scan_complete a : ascii_ok a -> forall prev off last s ts, Lexes a prev off last s ts ->
  forall f toks errs, (length s <= f)%nat ->
  scan a f s off last prev toks errs = Ok (rev toks ++ ts, rev errs).
Proof.
  intros Ha prev off last s ts HL.
  induction HL as [prev off last|prev off last w rest ts HT HL IH|prev off last w rest t ts HT HL IH];
    intros f toks errs Hlen.
  - destruct f; reflexivity.
  - destruct (Trivia_complete a prev off w rest HT) as [c [r [Heq Hsc]]].
    pose proof (Trivia_nonempty _ _ _ HT) as Hne.
    rewrite Heq in *. destruct f as [|f]; [cbn in Hlen; lia|].
    cbn [scan]. rewrite Hsc. apply IH.
    cbn [length] in Hlen. pose proof (app_nonempty_len w rest c r (eq_sym Heq) Hne). lia.
  - destruct (Tok_complete a prev off w rest t Ha HT) as [c [r [Heq Hsc]]].
    apply Tok_facts in HT as (_ & _ & Hl & Hne & _).
    rewrite Heq in *. destruct f as [|f]; [cbn in Hlen; lia|].
    cbn [scan]. rewrite Hsc, Hl. rewrite IH.
    + cbn [rev]. rewrite <- app_assoc. reflexivity.
    + cbn [length] in Hlen. pose proof (app_nonempty_len w rest c r (eq_sym Heq) Hne). lia.
Qed.

Lemma lex_fuel_enough : forall a s, lex_gen a s <> LexFuel.
Proof.
  intros a s. unfold lex_gen, lex_with.
  destruct (scan_fuel a (length s) s 0 0 None [] [] (le_n _)) as [ts [es ->]].
  destruct es; discriminate.
Qed.

Lemma lex_total : forall a s,
  (exists ts, lex_gen a s = LexOk ts) \/ (exists es, es <> [] /\ lex_gen a s = LexErr es).
Proof.
  intros a s. unfold lex_gen, lex_with.
  destruct (scan_fuel a (length s) s 0 0 None [] [] (le_n _)) as [ts [es ->]].
  destruct es as [|e es]; [left; eauto|right]. exists (e :: es). split; [discriminate|reflexivity].
Qed.

Lemma lex_ok_scan a s ts : lex_gen a s = LexOk ts <-> scan a (length s) s 0 0 None [] [] = Ok (ts, []).
Proof.
  unfold lex_gen, lex_with. split.
  - destruct (scan a (length s) s 0 0 None [] []) as [[ts0 es]|]; [|discriminate].
    destruct es; [|discriminate]. intro H; inversion H; reflexivity.
  - intros ->. reflexivity.
Qed.

Lemma lex_sound a s ts : lex_gen a s = LexOk ts -> Tokenises a s ts.
Proof.
  intro H. apply lex_ok_scan in H. apply scan_sound in H as [ts' [-> HL]]. exact HL.
Qed.

Lemma lex_ok_iff_grammar : forall a, ascii_ok a -> forall s ts, lex_gen a s = LexOk ts <-> Tokenises a s ts.
Proof.
  intros a Ha s ts. split; [apply lex_sound|].
  intro H. apply lex_ok_scan. apply (scan_complete a Ha _ _ _ _ _ H (length s) [] [] (le_n _)).
Qed.

Lemma grammar_deterministic : forall a, ascii_ok a -> forall s ts1 ts2,
  Tokenises a s ts1 -> Tokenises a s ts2 -> ts1 = ts2.
Proof.
  intros a Ha s ts1 ts2 H1 H2.
  apply (lex_ok_iff_grammar a Ha) in H1. apply (lex_ok_iff_grammar a Ha) in H2. congruence.
Qed.

(** * Literals *)

Definition lit_ok (t : token) : Prop :=
  match tkind t with
  | TNumber => exists ds fs, forallb is_digit ds = true /\ forallb is_digit fs = true /\ ds <> [] /\
                tlex t = ds ++ (match fs with [] => [] | _ => 46%N :: fs end) /\ tlit t = LNum (literal_float ds fs)
  | TStringLiteral => exists body v, tlex t = 34%N :: body ++ [34%N] /\ unescape body = Some v /\ tlit t = LStr v
  | _ => tlit t = LNone
  end.

Lemma Tok_literal a prev off w rest t : Tok a prev off w rest t -> lit_ok t.
Proof.
  intro H. inversion H; subst; unfold lit_ok; cbn [tkind tlex tlit]; try reflexivity.
  - match goal with E : assoc_N _ ref_single = Some _ |- _ => apply assoc_N_In in E; cbn [In ref_single] in E;
      repeat (destruct E as [E|E]; [inversion E; subst; reflexivity|]); contradiction end.
  - exists body, v. auto.
  - exists w, []. rewrite app_nil_r. auto.
  - exists ds, fs. repeat split; auto. destruct fs; [contradiction|reflexivity].
  - destruct (assoc_text (c :: cs) ref_keywords) as [kw|] eqn:E; [|reflexivity].
    apply ref_keywords_kinds in E. destruct kw; try reflexivity; vm_compute in E; discriminate E.
Qed.

Lemma Lexes_literals a prev off last s ts : Lexes a prev off last s ts -> forall t, In t ts -> lit_ok t.
Proof.
  induction 1 as [prev off last|prev off last w rest ts HT HL IH|prev off last w rest t0 ts HT HL IH];
    intros t Hin.
  - destruct Hin as [<-|[]]. reflexivity.
  - auto.
  - destruct Hin as [<-|Hin]; [eapply Tok_literal; eauto|auto].
Qed.

Lemma lex_literals : forall a, ascii_ok a -> forall s ts t, lex_gen a s = LexOk ts -> In t ts ->
  match tkind t with
  | TNumber => exists ds fs, forallb is_digit ds = true /\ forallb is_digit fs = true /\ ds <> [] /\
                tlex t = ds ++ (match fs with [] => [] | _ => 46%N :: fs end) /\ tlit t = LNum (literal_float ds fs)
  | TStringLiteral => exists body v, tlex t = 34%N :: body ++ [34%N] /\ unescape body = Some v /\ tlit t = LStr v
  | _ => tlit t = LNone
  end.
Proof.
  intros a _ s ts t H Hin. apply lex_sound in H. exact (Lexes_literals _ _ _ _ _ _ H t Hin).
Qed.

(** * Spans and labels *)

Lemma utf8_len_pos c : 1 <= utf8_len c.
Proof. unfold utf8_len. destruct (c <? 128), (c <? 2048), (c <? 65536); lia. Qed.

Lemma byte_len_app u v : byte_len (u ++ v) = byte_len u + byte_len v.
Proof. induction u as [|c u IH]; cbn [app byte_len]; [reflexivity|]. rewrite IH. lia. Qed.

Lemma byte_len_pos w : w <> [] -> 0 < byte_len w.
Proof. destruct w as [|c w]; [contradiction|]. intros _. cbn [byte_len]. pose proof (utf8_len_pos c). lia. Qed.

Definition tok_ok (src : text) (t : token) : Prop := tkind t <> TEof /\ 0 < tlen t /\ slice_ok src t.

Fixpoint dec_ok (toks : list token) (bound : N) : Prop :=
  match toks with
  | [] => True
  | t :: r => toff t + tlen t <= bound /\ dec_ok r (toff t)
  end.

Lemma dec_ok_mono toks b b' : b <= b' -> dec_ok toks b -> dec_ok toks b'.
Proof. destruct toks as [|t r]; cbn [dec_ok]; [auto|]. intros Hb [H1 H2]. split; [lia|exact H2]. Qed.

Lemma dec_ok_increasing toks : forall bound tail, dec_ok toks bound ->
  (match tail with [] => True | t :: _ => bound <= toff t end) -> increasing tail ->
  increasing (rev toks ++ tail).
Proof.
  induction toks as [|t r IH]; intros bound tail Hd Hb Hi; [exact Hi|].
  cbn [dec_ok] in Hd. destruct Hd as [H1 H2]. cbn [rev]. rewrite <- app_assoc. cbn [app].
  apply (IH (toff t)); [exact H2|lia|].
  destruct tail as [|t2 tail]; [exact I|]. cbn [increasing]. split; [lia|exact Hi].
Qed.

Lemma scan_spans a src : forall f s off last prev toks errs ts es pre,
  src = pre ++ s -> byte_len pre = off ->
  (exists pre0 post0, src = pre0 ++ post0 /\ byte_len pre0 = last) -> last <= off ->
  Forall (tok_ok src) toks -> dec_ok toks off ->
  scan a f s off last prev toks errs = Ok (ts, es) -> spans_ok src ts.
Proof.
  assert (Hbase : forall off last toks pre,
    src = pre ++ [] -> byte_len pre = off ->
    (exists pre0 post0, src = pre0 ++ post0 /\ byte_len pre0 = last) -> last <= off ->
    Forall (tok_ok src) toks -> dec_ok toks off ->
    spans_ok src (rev (mkToken TEof last 0 eof_lexeme LNone :: toks))).
  { intros off last toks pre Hsrc Hpre Hlast Hle Hall Hdec.
    exists (rev toks), (mkToken TEof last 0 eof_lexeme LNone). cbn [rev tkind tlen toff].
    split; [reflexivity|]. split; [reflexivity|]. split; [reflexivity|].
    rewrite app_nil_r in Hsrc. subst src. split; [lia|]. split; [exact Hlast|]. split.
    - apply Forall_rev. exact Hall.
    - rewrite <- (app_nil_r (rev toks)). apply (dec_ok_increasing toks off []); [exact Hdec|exact I|exact I]. }
  induction f as [|f IH]; intros s off last prev toks errs ts es pre Hsrc Hpre Hlast Hle Hall Hdec H.
  - destruct s; [|discriminate]. cbn in H. inversion H; subst ts es. eapply Hbase; eauto.
  - destruct s as [|c r].
    { cbn in H. inversion H; subst ts es. eapply Hbase; eauto. }
    cbn [scan] in H. pose proof (scan_token_sound a c r off prev) as Hst.
    assert (Hnew : exists pre0 post0, src = pre0 ++ post0 /\ byte_len pre0 = off) by (exists pre, (c :: r); auto).
    destruct (scan_token a c r off prev) as [t rest|w rest|e w rest]; cbn [step_ok] in Hst.
    + destruct Hst as [w [Heq HT]]. apply Tok_facts in HT as (Hlex & Hoff & Hlen & Hne & Hk).
      rewrite Heq in Hsrc.
      apply (IH rest (off + tlen t) off (Some (tkind t)) (t :: toks) errs ts es (pre ++ w)); auto.
      * rewrite <- app_assoc. exact Hsrc.
      * rewrite byte_len_app. lia.
      * lia.
      * constructor; [|exact Hall]. split; [exact Hk|]. split.
        -- rewrite Hlen. apply byte_len_pos. exact Hne.
        -- exists pre, rest. rewrite Hlex. repeat split; auto; lia.
      * cbn [dec_ok]. split; [lia|]. rewrite Hoff. exact Hdec.
    + destruct Hst as [Heq HT]. apply Trivia_nonempty in HT. rewrite Heq in Hsrc.
      apply (IH rest (off + byte_len w) off prev toks errs ts es (pre ++ w)); auto.
      * rewrite <- app_assoc. exact Hsrc.
      * rewrite byte_len_app. lia.
      * lia.
      * apply (dec_ok_mono toks off); [lia|exact Hdec].
    + destruct Hst as (Heq & Hne & _). rewrite Heq in Hsrc.
      apply (IH rest (off + byte_len w) off prev toks (e :: errs) ts es (pre ++ w)); auto.
      * rewrite <- app_assoc. exact Hsrc.
      * rewrite byte_len_app. lia.
      * lia.
      * apply (dec_ok_mono toks off); [lia|exact Hdec].
Qed.

Lemma lex_spans : forall a s ts, lex_gen a s = LexOk ts -> spans_ok s ts.
Proof.
  intros a s ts H. apply lex_ok_scan in H.
  apply (scan_spans a s _ _ _ _ _ _ _ _ _ [] eq_refl eq_refl) in H; auto.
  - exists [], s. auto.
  - reflexivity.
  - exact I.
Qed.

Lemma scan_labels a src : forall f s off last prev toks errs ts es pre,
  src = pre ++ s -> byte_len pre = off ->
  (forall e l, In e errs -> In l (elabels e) -> label_ok src l) ->
  scan a f s off last prev toks errs = Ok (ts, es) ->
  forall e l, In e es -> In l (elabels e) -> label_ok src l.
Proof.
  induction f as [|f IH]; intros s off last prev toks errs ts es pre Hsrc Hpre Herrs H e l He Hl.
  - destruct s; [|discriminate]. cbn in H. inversion H; subst ts es.
    apply in_rev in He. eauto.
  - destruct s as [|c r].
    { cbn in H. inversion H; subst ts es. apply in_rev in He. eauto. }
    cbn [scan] in H. pose proof (scan_token_sound a c r off prev) as Hst.
    destruct (scan_token a c r off prev) as [t rest|w rest|e0 w rest]; cbn [step_ok] in Hst.
    + destruct Hst as [w [Heq HT]]. apply Tok_facts in HT as (_ & _ & Hlen & _).
      rewrite Heq in Hsrc.
      refine (IH rest _ _ _ _ _ _ _ (pre ++ w) _ _ _ H e l He Hl).
      * rewrite <- app_assoc. exact Hsrc.
      * rewrite byte_len_app. lia.
      * exact Herrs.
    + destruct Hst as [Heq _]. rewrite Heq in Hsrc.
      refine (IH rest _ _ _ _ _ _ _ (pre ++ w) _ _ _ H e l He Hl).
      * rewrite <- app_assoc. exact Hsrc.
      * rewrite byte_len_app. lia.
      * exact Herrs.
    + destruct Hst as (Heq & _ & Hlab & _).
      refine (IH rest _ _ _ _ _ _ _ (pre ++ w) _ _ _ H e l He Hl).
      * rewrite <- app_assoc, <- Heq. exact Hsrc.
      * rewrite byte_len_app. lia.
      * intros e1 l1 [<-|He1] Hl1; [|eauto].
        destruct (Hlab l1 Hl1) as [mid [post [Hmp [Hf Hs]]]].
        exists pre, mid, post. rewrite <- Hmp. repeat split; auto; lia.
Qed.

Lemma lex_labels_ok : forall a s es e l,
  lex_gen a s = LexErr es -> In e es -> In l (elabels e) -> label_ok s l.
Proof.
  intros a s es e l H. unfold lex_gen, lex_with in H.
  destruct (scan a (length s) s 0 0 None [] []) as [[ts0 es0]|] eqn:E; [|discriminate].
  destruct es0 as [|e0 es0]; [discriminate|]. inversion H; subst es.
  intros He Hl.
  refine (scan_labels a s _ _ _ _ _ _ _ _ _ [] eq_refl eq_refl _ E e l He Hl).
  intros e1 l1 [].
Qed.

(** * The error automaton *)

Lemma err_word_run a cs rest : forallb (id_char a) cs = true -> starts_with_p (id_char a) rest = false ->
  err_from a QWord (cs ++ rest) = err_from a QCode rest.
Proof.
  intros Hcs Hrest. induction cs as [|c cs IH]; cbn [app].
  - destruct rest as [|c r]; [reflexivity|]. cbn [starts_with_p] in Hrest. cbn [err_from]. rewrite Hrest. reflexivity.
  - cbn [forallb] in Hcs. apply andb_true_iff in Hcs as [Hc Hcs]. cbn [err_from]. rewrite Hc. auto.
Qed.

Lemma err_num_run a ds rest : forallb is_digit ds = true -> starts_with_p is_digit rest = false ->
  err_from a QNum (ds ++ rest) = err_from a QCode rest.
Proof.
  intros Hds Hrest. induction ds as [|c ds IH]; cbn [app].
  - destruct rest as [|c r]; [reflexivity|]. cbn [starts_with_p] in Hrest. cbn [err_from]. rewrite Hrest. reflexivity.
  - cbn [forallb] in Hds. apply andb_true_iff in Hds as [Hc Hds]. cbn [err_from]. rewrite Hc. auto.
Qed.

Lemma err_comment_run a body rest : forallb (fun x => negb (x =? 10)) body = true ->
  starts_with_p (fun x => negb (x =? 10)) rest = false ->
  err_from a QComment (body ++ rest) = err_from a QCode rest.
Proof.
  intros Hb Hrest. induction body as [|c body IH]; cbn [app].
  - destruct rest as [|c r]; [reflexivity|]. cbn [starts_with_p] in Hrest.
    apply negb_false_iff in Hrest. apply N.eqb_eq in Hrest. subst c. reflexivity.
  - cbn [forallb] in Hb. apply andb_true_iff in Hb as [Hc Hb]. apply negb_true_iff in Hc.
    cbn [err_from]. rewrite Hc. auto.
Qed.

Lemma err_str_run a body v rest : unescape body = Some v ->
  err_from a QStr (body ++ 34 :: rest) = err_from a QCode rest.
Proof.
  intro Hun.
  pose proof (string_body_err a _ (body ++ 34 :: rest) [] [] (le_n _)) as H.
  rewrite (string_body_complete (length body) body v rest [] [] (le_n _) Hun) in H. exact H.
Qed.

Lemma err_digit_start a c r : is_digit c = true -> err_from a QCode (c :: r) = err_from a QNum r.
Proof.
  intro H. rewrite err_code_cons, (code_step_plain a c (digit_not_special c H)), H. reflexivity.
Qed.

Lemma Tok_err a prev off w rest t : ascii_ok a -> Tok a prev off w rest t ->
  err_from a QCode (w ++ rest) = err_from a QCode rest.
Proof.
  intros Ha H. inversion H; subst; try reflexivity.
  - match goal with E : assoc_N _ ref_single = Some _ |- _ => apply assoc_N_In in E; cbn [In ref_single] in E;
      repeat (destruct E as [E|E]; [inversion E; subst; reflexivity|]); contradiction end.
  - (* < *) change (err_from a QLt rest = err_from a QCode rest).
    destruct rest as [|d r]; [reflexivity|]. cbn [starts_with_p] in H0. cbn [err_from]. rewrite H0. reflexivity.
  - (* > *) change (err_from a QGt rest = err_from a QCode rest).
    destruct rest as [|d r]; [reflexivity|]. cbn [starts_with_p] in H0. cbn [err_from]. rewrite H0. reflexivity.
  - (* / *) change (err_from a QSlash rest = err_from a QCode rest).
    destruct rest as [|d r]; [reflexivity|]. cbn [starts_with_p] in H0. cbn [err_from]. rewrite H0. reflexivity.
  - (* string *)
    cbn [app]. rewrite <- app_assoc. cbn [app].
    change (err_from a QStr (body ++ 34 :: rest) = err_from a QCode rest). eapply err_str_run; eauto.
  - (* int *)
    destruct w as [|d0 ds]; [contradiction|]. cbn [forallb] in H1. apply andb_true_iff in H1 as [Hd0 Hds].
    cbn [app]. rewrite (err_digit_start a _ _ Hd0). apply err_num_run; assumption.
  - (* frac *)
    destruct ds as [|d0 ds]; [contradiction|]. destruct fs as [|f0 fs]; [contradiction|].
    cbn [forallb] in H1, H3. apply andb_true_iff in H1 as [Hd0 Hds]. apply andb_true_iff in H3 as [Hf0 Hfs].
    cbn [app]. rewrite <- app_assoc. cbn [app]. rewrite (err_digit_start a _ _ Hd0).
    rewrite (err_num_run a ds (46 :: f0 :: fs ++ rest) Hds eq_refl).
    change (err_from a QCode (f0 :: fs ++ rest) = err_from a QCode rest).
    rewrite (err_digit_start a _ _ Hf0). apply err_num_run; assumption.
  - (* word *)
    cbn [app]. rewrite err_code_cons, (code_step_plain a c (alnum_not_special a c Ha H0)), H1, H0.
    apply err_word_run; assumption.
Qed.

Lemma Trivia_err a prev w rest : Trivia prev w rest ->
  err_from a QCode (w ++ rest) = err_from a QCode rest.
Proof.
  intro H. inversion H; subst; try reflexivity.
  - cbn [In ref_blanks] in H0. repeat (destruct H0 as [H0|H0]; [subst c; reflexivity|]). contradiction.
  - cbn [app]. change (err_from a QComment (body ++ rest) = err_from a QCode rest).
    apply err_comment_run; assumption.
Qed.

Lemma scan_err_iff a : ascii_ok a -> forall f s off last prev toks ts es,
  scan a f s off last prev toks [] = Ok (ts, es) -> (es <> [] <-> err_from a QCode s = true).
Proof.
  intro Ha. induction f as [|f IH]; intros s off last prev toks ts es H.
  - destruct s; [|discriminate]. cbn in H. inversion H; subst. cbn. split; [congruence|discriminate].
  - destruct s as [|c r].
    { cbn in H. inversion H; subst. cbn. split; [congruence|discriminate]. }
    cbn [scan] in H. pose proof (scan_token_sound a c r off prev) as Hst.
    destruct (scan_token a c r off prev) as [t rest|w rest|e w rest]; cbn [step_ok] in Hst.
    + destruct Hst as [w [Heq HT]]. rewrite Heq, (Tok_err a prev off w rest t Ha HT). eapply IH; eauto.
    + destruct Hst as [Heq HT]. rewrite Heq, (Trivia_err a prev w rest HT). eapply IH; eauto.
    + destruct Hst as (_ & _ & _ & Herr). rewrite (Herr Ha).
      apply scan_acc in H as [ts' [es' [_ ->]]]. cbn [rev app]. split; [reflexivity|discriminate].
Qed.

Lemma lex_err_iff : forall a, ascii_ok a -> forall s,
  (exists es, lex_gen a s = LexErr es) <-> lexical_error a s = true.
Proof.
  intros a Ha s. unfold lex_gen, lex_with, lexical_error.
  destruct (scan_fuel a (length s) s 0 0 None [] [] (le_n _)) as [ts [es E]]. rewrite E.
  apply (scan_err_iff a Ha) in E. rewrite <- E.
  destruct es as [|e es]; split.
  - intros [es0 H]. discriminate.
  - intro H. contradiction.
  - discriminate.
  - eauto.
Qed.

(** * Non-vacuity *)

Lemma lex_example : exists ts, lex (txt "x <- ""é"" + 1.5"%string) = LexOk ts /\ length ts = 6%nat.
Proof.
  exists (match lex (txt "x <- ""é"" + 1.5"%string) with LexOk ts => ts | _ => [] end).
  split; vm_compute; reflexivity.
Qed.

Lemma uni_alnum_ascii_ok : ascii_ok uni_alnum.
Proof. intros c H. unfold uni_alnum. apply N.ltb_lt in H. rewrite H. reflexivity. Qed.
