(** GrammarProofs: soundness of the parser model with respect to the relational grammar
    (GrammarSpec), used by Props/C11b.v.
    Every grammar function that returns [POk x st'] from [st] consumed a segment [seg] of tokens
    ([mv st st' seg]: [rest st = seg ++ rest st'] and the "previous token" register of [st'] is the
    last token of [seg], or the one of [st] when [seg] is empty) and [x] is a derivation of the
    grammar over exactly [seg].  One pass over the expression functions, one over the statement
    functions (both by induction on fuel), then the program loop: an accepted program ran no error
    recovery and stopped on an end-of-input token. *)
From Aplang Require Import Base FloatX Token Ast ParseImpl ParseSpec GrammarSpec.
From Aplang.Gen Require Import Generated.
Open Scope N_scope.

(** * Small facts *)

Lemma assoc_kind_tk {A} k (l : list (tk * A)) : assoc_tk k l = assoc_kind k l.
Proof. induction l as [|[k' v] l IH]; cbn; [reflexivity|]. destruct (tk_eqb k k'); auto. Qed.

Lemma DExpr_eq s s' e : DExpr s e -> s = s' -> DExpr s' e.
Proof. intros H <-. exact H. Qed.

Lemma DStmt_eq s s' x : DStmt s x -> s = s' -> DStmt s' x.
Proof. intros H <-. exact H. Qed.

Lemma DExpr_var_inv seg n sp : DExpr seg (EVar n sp) ->
  exists t, seg = [t] /\ tkind t = TIdentifier /\ n = tlex t /\ sp = tspan t.
Proof. inversion 1; subst. eauto. Qed.

Lemma DExpr_access_inv seg a b c l k : DExpr seg (EAccess a b c l k) ->
  exists segb lb segk rb lt, seg = segb ++ lb :: segk ++ [rb] /\ tkind lb = TLeftBracket /\
    tkind rb = TRightBracket /\ DExpr segb l /\ DExpr segk k /\ In lt segb /\
    a = tspan lt /\ b = tspan lb /\ c = tspan rb.
Proof. inversion 1; subst. do 5 eexists. repeat split; eauto. Qed.

Lemma strings_nonnil seg names : strings seg names -> names <> [].
Proof. destruct seg as [|t [|c r]], names; cbn; intros H; try contradiction; discriminate. Qed.

(** * Consumed segments *)

Fixpoint lastp (p : option token) (seg : list token) : option token :=
  match seg with [] => p | t :: r => lastp (Some t) r end.

Lemma lastp_app p a b : lastp p (a ++ b) = lastp (lastp p a) b.
Proof. revert p; induction a as [|t a IH]; intro p; cbn; [reflexivity|apply IH]. Qed.

Lemma lastp_nonnil p seg : seg <> [] -> exists pre t, seg = pre ++ [t] /\ lastp p seg = Some t.
Proof.
  intro H. destruct (exists_last H) as (pre & t & ->). exists pre, t. split; [reflexivity|].
  rewrite lastp_app. reflexivity.
Qed.

Definition mv (st st' : pstate) (seg : list token) : Prop :=
  rest st = seg ++ rest st' /\ prevt st' = lastp (prevt st) seg.

Lemma mv_nil st : mv st st [].
Proof. split; reflexivity. Qed.

Lemma mv_trans a b c s1 s2 : mv a b s1 -> mv b c s2 -> mv a c (s1 ++ s2).
Proof.
  intros [E1 P1] [E2 P2]. split.
  - rewrite E1, E2, app_assoc. reflexivity.
  - rewrite lastp_app, <- P1. exact P2.
Qed.

Lemma mv_eq st st' s s' : mv st st' s -> s = s' -> mv st st' s'.
Proof. intros H <-. exact H. Qed.

Lemma mv_flags st a b st' s : mv (set_flags st a b) st' s -> mv st st' s.
Proof. intro H. exact H. Qed.

Lemma mv_rest st st' s : mv st st' s -> rest st = s ++ rest st'.
Proof. intros [H _]. exact H. Qed.

Lemma mv_one_prev st st' t : mv st st' [t] -> prevt st' = Some t.
Proof. intros [_ H]. exact H. Qed.

Lemma mv_last st st' seg : mv st st' seg -> seg <> [] ->
  exists pre t, seg = pre ++ [t] /\ prevt st' = Some t.
Proof.
  intros [_ P] N. destruct (lastp_nonnil (prevt st) seg N) as (pre & t & E & L).
  exists pre, t. split; [exact E|]. rewrite P. exact L.
Qed.

(** * Cursor primitives *)

Lemma advance_mv st t r : rest st = t :: r -> tkind t <> TEof -> mv st (advance st) [t].
Proof.
  intros E Hk. unfold mv, advance. rewrite E.
  destruct (tk_eqb (tkind t) TEof) eqn:Et; [apply tk_eqb_eq in Et; contradiction|].
  split; reflexivity.
Qed.

Lemma check_inv k st : check k st = true ->
  exists t r, rest st = t :: r /\ tkind t <> TEof /\ tkind t = k.
Proof.
  unfold check. destruct (rest st) as [|t r]; [discriminate|]. intro H.
  apply andb_true_iff in H as [H1 H2]. exists t, r. split; [reflexivity|]. split.
  - intro E. rewrite E in H1. discriminate.
  - apply tk_eqb_eq; exact H2.
Qed.

Lemma at_end_inv st : at_end st = false -> exists t r, rest st = t :: r /\ tkind t <> TEof.
Proof.
  unfold at_end. destruct (rest st) as [|t r]; [discriminate|]. intro H. exists t, r.
  split; [reflexivity|]. intro E. rewrite E in H. discriminate.
Qed.

Lemma check_mv k st : check k st = true -> exists t, mv st (advance st) [t] /\ tkind t = k.
Proof.
  intro H. apply check_inv in H as (t & r & E & Hk & K). exists t. split; [|exact K].
  eapply advance_mv; eauto.
Qed.

Lemma match_tok_inv k st b st' : match_tok k st = (b, st') ->
  (b = true /\ exists t, mv st st' [t] /\ tkind t = k) \/ (b = false /\ st' = st).
Proof.
  unfold match_tok. destruct (check k st) eqn:E; intro H; inversion H; subst.
  - left. split; [reflexivity|apply check_mv; exact E].
  - right. auto.
Qed.

Lemma match_toks_inv ks st b st' : match_toks ks st = (b, st') ->
  (b = true /\ exists t, mv st st' [t] /\ In (tkind t) ks) \/ (b = false /\ st' = st).
Proof.
  induction ks as [|k ks IH]; cbn [match_toks]; intro H.
  - inversion H; subst. right; auto.
  - destruct (check k st) eqn:E.
    + inversion H; subst. left. split; [reflexivity|].
      apply check_mv in E as (t & M & K). exists t. split; [exact M|left; auto].
    + apply IH in H as [(-> & t & M & K)|(-> & ->)]; [left|right; auto].
      split; [reflexivity|]. exists t. split; [exact M|right; exact K].
Qed.

Lemma consume_inv k rep st p st' : k <> TEof -> consume k rep st = POk p st' ->
  mv st st' [p] /\ tkind p = k.
Proof.
  intros Hk. unfold consume, with_peek. destruct (rest st) as [|t r] eqn:E; [discriminate|].
  destruct (tk_eqb (tkind t) k) eqn:Et; [|discriminate]. cbv zeta.
  apply tk_eqb_eq in Et. assert (Ht : tkind t <> TEof) by congruence.
  pose proof (advance_mv st t r E Ht) as M. pose proof (mv_one_prev _ _ _ M) as P.
  unfold with_prev. rewrite P. intro H. inversion H; subst. auto.
Qed.

Lemma restore_inv {A} a b (r : pres A) x st' : restore a b r = POk x st' ->
  exists st0, r = POk x st0 /\ mv st0 st' [].
Proof.
  destruct r; cbn [restore]; intro H; inversion H; subst. eexists; split; [reflexivity|].
  split; reflexivity.
Qed.

(** * Tactics *)

Ltac bind H y s1 E :=
  match type of H with
  | pbind ?m _ = POk _ _ => destruct m as [y s1| | |] eqn:E; cbn [pbind] in H; try discriminate H
  end.
Ltac prev H t Ep :=
  match type of H with
  | with_prev ?st _ = _ => unfold with_prev at 1 in H; destruct (prevt st) as [t|] eqn:Ep; [|discriminate H]
  end.
(* [M : mv a b [t]], [Ep : prevt b = Some u]: identify u with t *)
Ltac same M Ep :=
  let P := fresh "P" in
  pose proof (mv_one_prev _ _ _ M) as P; rewrite P in Ep; inversion Ep; subst; clear P Ep.
Ltac mtok H k st b s1 t M K :=
  let E := fresh "Em" in
  destruct (match_tok k st) as [b s1] eqn:E;
  apply match_tok_inv in E as [(-> & t & M & K)|(-> & ->)].
Ltac mtoks H ks st b s1 t M K :=
  let E := fresh "Em" in
  destruct (match_toks ks st) as [b s1] eqn:E;
  apply match_toks_inv in E as [(-> & t & M & K)|(-> & ->)].
Ltac cons E M K := apply consume_inv in E as [M K]; [|discriminate].
Ltac lists := repeat (rewrite <- app_assoc || rewrite app_nil_r || cbn [app]); reflexivity.
Ltac chain :=
  eapply mv_eq;
  [ repeat first [eassumption | apply mv_nil | eapply mv_trans; [eassumption|]] | lists ].
Ltac nonnil :=
  let Z := fresh "Z" in
  first [ discriminate
        | intro Z; apply app_eq_nil in Z as [Z _]; first [discriminate Z | contradiction] ].

(** * One step of each parser function *)

Lemma p_level_S f l st : p_level (S f) l st =
  match l with
  | LvAssignment =>
    do e, st1 <- p_level f assignment_first st;
    with_prev st1 (fun expr_token =>
    match match_tok TArrow st1 with
    | (true, st2) =>
      with_prev st2 (fun arrow =>
      do v, st3 <- p_level f assignment_value st2;
      match e with
      | EVar name tok => POk (EAssign name tok (tspan arrow) v) st3
      | EAccess lt lb rb lst key => POk (ESet lt lb rb (tspan arrow) lst key v) st3
      | _ => PErr (mkPErr PC_invalid_assignment_target [tspan arrow; tspan expr_token]) st3
      end)
    | (false, _) => POk e st1
    end)
  | LvUnary =>
    match match_toks unary_ops st with
    | (true, st1) =>
      with_prev st1 (fun tok =>
      do r, st2 <- p_level f unary_operand st1;
      match assoc_tk (tkind tok) unop_of_token with
      | Some op => POk (EUn op (tspan tok) r) st2
      | None => fail st2
      end)
    | (false, _) => p_level f unary_else st
    end
  | LvAccess =>
    do e, st1 <- p_level f access_first st;
    with_prev st1 (fun expr_token => p_access f e (tspan expr_token) st1)
  | LvPrimary => p_primary f st
  | _ =>
    match rung_of l with
    | None => fail st
    | Some rg =>
      do e, st1 <- p_level f (r_first rg) st;
      p_loop f rg e st1
    end
  end.
Proof. reflexivity. Qed.

Lemma p_loop_S f rg e st : p_loop (S f) rg e st =
  match match_toks (r_ops rg) st with
  | (true, st1) =>
    with_prev st1 (fun tok =>
    do r, st2 <- p_level f (r_loop rg) st1;
    match r_mk rg with
    | MkLog op => p_loop f rg (ELog op (tspan tok) e r) st2
    | MkBin =>
      match assoc_tk (tkind tok) binop_of_token with
      | Some op => p_loop f rg (EBin op (tspan tok) e r) st2
      | None => fail st2
      end
    end)
  | (false, _) => POk e st
  end.
Proof. reflexivity. Qed.

Lemma p_access_S f e sp st : p_access (S f) e sp st =
  match match_tok TLeftBracket st with
  | (true, st1) =>
    with_prev st1 (fun lb =>
    do idx, st2 <- p_level f expression_entry st1;
    do rb, st3 <- consume TRightBracket (fun t => mkPErr PC_missing_rbracket [tspan t]) st2;
    p_access f (EAccess sp (tspan lb) (tspan rb) e idx) sp st3)
  | (false, _) => POk e st
  end.
Proof. reflexivity. Qed.

Lemma p_items_S f limit n st : p_items (S f) limit n st =
  if (match limit with Some m => m <=? n | None => false end) then fail st else
  do e, st1 <- p_level f expression_entry st;
  with_peek st1 (fun after =>
  match match_tok TComma st1 with
  | (true, st2) =>
    do more, st3 <- p_items f limit (n + 1) st2;
    POk (e :: fst more, after :: snd more) st3
  | (false, _) => POk ([e], [after]) st1
  end).
Proof. reflexivity. Qed.

Lemma p_primary_S f st : p_primary (S f) st =
  with_peek st (fun t =>
  if at_end st then PErr (mkPErr PC_none [tspan t]) st else
  match tkind t with
  | TTrue => POk ETrue (advance st)
  | TFalse => POk EFalse (advance st)
  | TNull => POk ENull (advance st)
  | TStringLiteral => match tlit t with LStr s => POk (EStr s) (advance st) | _ => PPanic PanicLiteral end
  | TNumber => match tlit t with LNum x => POk (ENum x) (advance st) | _ => PPanic PanicLiteral end
  | TIdentifier =>
    let st1 := advance st in
    match match_tok TLeftParen st1 with
    | (true, st2) =>
      with_prev st2 (fun lp =>
      do items, st3 <- (if check TRightParen st2 then POk ([], []) st2 else p_items f (Some 255) 0 st2);
      do rp, st4 <- consume TRightParen (fun x => mkPErr PC_missing_rp [tspan x]) st3;
      POk (ECall (tlex t) (tspan t) (tspan lp) (tspan rp) (gaps (lp :: snd items)) (fst items)) st4)
    | (false, _) => POk (EVar (tlex t) (tspan t)) st1
    end
  | TLeftParen =>
    let st1 := advance st in
    do e, st2 <- p_level f expression_entry st1;
    do rp, st3 <- consume TRightParen (fun x => mkPErr PC_missing_lp [tspan x]) st2;
    POk (EGroup e) st3
  | TLeftBracket =>
    let st1 := advance st in
    do items, st2 <- (if check TRightBracket st1 then POk ([], []) st1 else p_items f None 0 st1);
    do rb, st3 <- consume TRightBracket (fun x => mkPErr PC_missing_rb [tspan x]) st2;
    POk (EList (tspan t) (tspan rb) (fst items)) st3
  | _ => PErr (mkPErr PC_none [tspan t]) st
  end).
Proof. reflexivity. Qed.

(** * Expressions *)

(* for a logical rung, the operator tokens of the rung are the ones of its node *)
Definition rung_ok (rg : rung) : Prop :=
  match r_mk rg with
  | MkLog op => forall k, In k (r_ops rg) -> (k = TOr /\ op = LOr) \/ (k = TAnd /\ op = LAnd)
  | MkBin => True
  end.

Lemma ladder_ok l rg : rung_of l = Some rg -> rung_ok rg.
Proof.
  intro H. destruct l; vm_compute in H; try discriminate H; inversion H; subst rg;
    cbv [rung_ok r_mk r_ops]; try exact I; intros k [<-|[]]; auto.
Qed.

Definition gexpr (f : nat) : Prop :=
  (forall l st x st', p_level f l st = POk x st' ->
     exists seg, mv st st' seg /\ seg <> [] /\ DExpr seg x) /\
  (forall rg e st x st' segl, rung_ok rg -> DExpr segl e -> p_loop f rg e st = POk x st' ->
     exists seg, mv st st' seg /\ DExpr (segl ++ seg) x) /\
  (forall e sp st x st' segb lt, DExpr segb e -> In lt segb -> sp = tspan lt ->
     p_access f e sp st = POk x st' ->
     exists seg, mv st st' seg /\ DExpr (segb ++ seg) x) /\
  (forall lim n st x st', p_items f lim n st = POk x st' ->
     exists segs close r, mv st st' segs /\ rest st' = close :: r /\
       DItems segs (snd x) (fst x) close /\ fst x <> []) /\
  (forall st x st', p_primary f st = POk x st' ->
     exists seg, mv st st' seg /\ seg <> [] /\ DExpr seg x).

Lemma gexpr_all : forall f, gexpr f.
Proof.
  induction f as [|f (IHl & IHlo & IHa & IHi & IHp)].
  { repeat split; intros; discriminate. }
  assert (Hrung : forall l rg st x st', rung_of l = Some rg ->
            (do e, st1 <- p_level f (r_first rg) st; p_loop f rg e st1) = POk x st' ->
            exists seg, mv st st' seg /\ seg <> [] /\ DExpr seg x).
  { intros l rg st x st' Er H. bind H e st1 E1. apply IHl in E1 as (s1 & M1 & N1 & D1).
    destruct (IHlo _ _ _ _ _ _ (ladder_ok _ _ Er) D1 H) as (s2 & M2 & D2).
    exists (s1 ++ s2). split; [chain|]. split; [nonnil|exact D2]. }
  repeat split.
  - (* p_level *)
    intros l st x st' H. rewrite p_level_S in H. destruct l.
    + (* assignment *)
      bind H e st1 E1. apply IHl in E1 as (s1 & M1 & N1 & D1). prev H et Ep.
      mtok H TArrow st1 b st2 ta M2 K2.
      * prev H arrow Ea. same M2 Ea.
        bind H v st3 E3. apply IHl in E3 as (s3 & M3 & N3 & D3).
        destruct e; try discriminate H; inversion H; subst; clear H.
        -- (* EAccess: ESet *)
           apply DExpr_access_inv in D1
             as (segb & lb0 & segk & rb0 & lt & -> & Kl & Kr & Db & Dk & Hin & -> & -> & ->).
           exists ((segb ++ lb0 :: segk ++ [rb0]) ++ arrow :: s3). split; [chain|]. split; [nonnil|].
           eapply DExpr_eq; [eapply (D_set segb _ lb0 segk _ rb0 arrow s3 _ lt); eauto|lists].
        -- (* EVar: EAssign *)
           apply DExpr_var_inv in D1 as (t & -> & Kt & -> & ->).
           exists ([t] ++ arrow :: s3). split; [chain|]. split; [nonnil|].
           apply D_assign; auto.
      * inversion H; subst. exists s1. auto.
    + destruct (rung_of LvOr) as [rg|] eqn:Er; [eapply Hrung; eauto|discriminate].
    + destruct (rung_of LvAnd) as [rg|] eqn:Er; [eapply Hrung; eauto|discriminate].
    + destruct (rung_of LvEquality) as [rg|] eqn:Er; [eapply Hrung; eauto|discriminate].
    + destruct (rung_of LvComparison) as [rg|] eqn:Er; [eapply Hrung; eauto|discriminate].
    + destruct (rung_of LvAddition) as [rg|] eqn:Er; [eapply Hrung; eauto|discriminate].
    + destruct (rung_of LvMultiplication) as [rg|] eqn:Er; [eapply Hrung; eauto|discriminate].
    + (* unary *)
      mtoks H unary_ops st b st1 t M1 K1.
      * prev H tok Ep. same M1 Ep. bind H r st2 E2. apply IHl in E2 as (s2 & M2 & N2 & D2).
        destruct (assoc_tk (tkind tok) unop_of_token) as [op|] eqn:Eo; [|discriminate].
        inversion H; subst; clear H.
        exists (tok :: s2). split; [chain|]. split; [nonnil|].
        apply D_un; [rewrite <- assoc_kind_tk; exact Eo|exact D2].
      * eapply IHl; eauto.
    + (* access *)
      bind H e st1 E1. apply IHl in E1 as (s1 & M1 & N1 & D1). prev H et Ep.
      destruct (mv_last _ _ _ M1 N1) as (pre & t & Es & Pt). rewrite Pt in Ep. inversion Ep; subst et.
      assert (Hin : In t s1) by (rewrite Es; apply in_or_app; right; left; reflexivity).
      destruct (IHa _ _ _ _ _ _ _ D1 Hin eq_refl H) as (s2 & M2 & D2).
      exists (s1 ++ s2). split; [chain|]. split; [nonnil|exact D2].
    + eapply IHp; eauto.
  - (* p_loop *)
    intros rg e st x st' segl Hr D H. rewrite p_loop_S in H.
    mtoks H (r_ops rg) st b st1 t M1 K1.
    + prev H tok Ep. same M1 Ep. bind H r st2 E2. apply IHl in E2 as (s2 & M2 & N2 & D2).
      pose proof Hr as Hr'. unfold rung_ok in Hr'.
      destruct (r_mk rg) as [op|] eqn:Emk.
      * assert (D' : DExpr (segl ++ tok :: s2) (ELog op (tspan tok) e r)) by (apply D_log; auto).
        destruct (IHlo _ _ _ _ _ _ Hr D' H) as (s3 & M3 & D3).
        exists (tok :: s2 ++ s3). split; [chain|]. eapply DExpr_eq; [exact D3|lists].
      * destruct (assoc_tk (tkind tok) binop_of_token) as [op|] eqn:Eo; [|discriminate].
        assert (D' : DExpr (segl ++ tok :: s2) (EBin op (tspan tok) e r))
          by (apply D_bin; [rewrite <- assoc_kind_tk; exact Eo|exact D|exact D2]).
        destruct (IHlo _ _ _ _ _ _ Hr D' H) as (s3 & M3 & D3).
        exists (tok :: s2 ++ s3). split; [chain|]. eapply DExpr_eq; [exact D3|lists].
    + inversion H; subst. exists []. split; [apply mv_nil|]. rewrite app_nil_r. exact D.
  - (* p_access *)
    intros e sp st x st' segb lt D Hin -> H. rewrite p_access_S in H.
    mtok H TLeftBracket st b st1 t M1 K1.
    + prev H lb Ep. same M1 Ep. bind H idx st2 E2. apply IHl in E2 as (s2 & M2 & N2 & D2).
      bind H rb st3 E3. cons E3 M3 K3.
      assert (D' : DExpr (segb ++ lb :: s2 ++ [rb]) (EAccess (tspan lt) (tspan lb) (tspan rb) e idx))
        by (apply D_access; auto).
      assert (Hin' : In lt (segb ++ lb :: s2 ++ [rb])) by (apply in_or_app; left; exact Hin).
      destruct (IHa _ _ _ _ _ _ _ D' Hin' eq_refl H) as (s4 & M4 & D4).
      exists (lb :: s2 ++ rb :: s4). split; [chain|]. eapply DExpr_eq; [exact D4|lists].
    + inversion H; subst. exists []. split; [apply mv_nil|]. rewrite app_nil_r. exact D.
  - (* p_items *)
    intros lim n st x st' H. rewrite p_items_S in H.
    destruct (match lim with Some m => m <=? n | None => false end); [discriminate|].
    bind H e st1 E1. apply IHl in E1 as (s1 & M1 & N1 & D1). unfold with_peek in H.
    destruct (rest st1) as [|after r] eqn:Er; [discriminate|].
    mtok H TComma st1 b st2 t M2 K2.
    + pose proof (mv_rest _ _ _ M2) as R2. rewrite Er in R2. inversion R2; subst after.
      bind H more st3 E3. apply IHi in E3 as (segs & close & r3 & M3 & Er3 & DI & NN).
      inversion H; subst; clear H. cbn [fst snd].
      exists (s1 ++ t :: segs), close, r3. split; [chain|]. split; [exact Er3|].
      split; [apply DI_cons; auto|discriminate].
    + inversion H; subst; clear H. cbn [fst snd]. exists s1, after, r.
      split; [exact M1|]. split; [exact Er|]. split; [apply DI_one; exact D1|discriminate].
  - (* p_primary *)
    intros st x st' H. rewrite p_primary_S in H. unfold with_peek in H.
    destruct (rest st) as [|t r] eqn:Er; [discriminate|].
    destruct (at_end st) eqn:Ee; [discriminate|].
    assert (Hk : tkind t <> TEof).
    { apply at_end_inv in Ee as (t' & r' & E' & Hk). rewrite Er in E'. inversion E'; subst. exact Hk. }
    pose proof (advance_mv st t r Er Hk) as M0. clear Hk.
    destruct (tkind t) eqn:Ek; try discriminate H; cbv zeta in H.
    + (* ( *)
      bind H e st2 E2. apply IHl in E2 as (s2 & M2 & N2 & D2). bind H rp st3 E3. cons E3 M3 K3.
      inversion H; subst; clear H.
      exists (t :: s2 ++ [rp]). split; [chain|]. split; [nonnil|]. apply D_group; auto.
    + (* [ *)
      bind H items st2 E2. bind H rb st3 E3. cons E3 M3 K3. inversion H; subst; clear H.
      destruct (check TRightBracket (advance st)).
      * inversion E2; subst. cbn [fst snd].
        exists (t :: [] ++ [rb]). split; [chain|]. split; [nonnil|].
        apply (D_list t [] [] [] rb); auto. apply DI_nil.
      * apply IHi in E2 as (segs & close & r3 & M2 & Er3 & DI & NN).
        pose proof (mv_rest _ _ _ M3) as R3. rewrite Er3 in R3. inversion R3; subst close.
        exists (t :: segs ++ [rb]). split; [chain|]. split; [nonnil|].
        eapply D_list; eauto.
    + (* identifier *)
      mtok H TLeftParen (advance st) b st2 lp M1 K1.
      * prev H lp' Ep. same M1 Ep. bind H items st3 E3. bind H rp st4 E4. cons E4 M4 K4.
        inversion H; subst; clear H.
        destruct (check TRightParen st2).
        -- inversion E3; subst. cbn [fst snd].
           exists (t :: lp' :: [] ++ [rp]). split; [chain|]. split; [nonnil|].
           apply (D_call t lp' [] [] [] rp); auto. apply DI_nil.
        -- apply IHi in E3 as (segs & close & r3 & M3 & Er3 & DI & NN).
           pose proof (mv_rest _ _ _ M4) as R4. rewrite Er3 in R4. inversion R4; subst close.
           exists (t :: lp' :: segs ++ [rp]). split; [chain|]. split; [nonnil|].
           apply D_call; auto.
      * inversion H; subst; clear H. exists [t]. split; [exact M0|]. split; [nonnil|].
        apply D_var; exact Ek.
    + destruct (tlit t) eqn:El; try discriminate H; inversion H; subst; clear H.
      exists [t]. split; [exact M0|]. split; [nonnil|]. apply D_num; auto.
    + destruct (tlit t) eqn:El; try discriminate H; inversion H; subst; clear H.
      exists [t]. split; [exact M0|]. split; [nonnil|]. apply D_str; auto.
    + inversion H; subst; clear H. exists [t]. split; [exact M0|]. split; [nonnil|]. apply D_true; auto.
    + inversion H; subst; clear H. exists [t]. split; [exact M0|]. split; [nonnil|]. apply D_false; auto.
    + inversion H; subst; clear H. exists [t]. split; [exact M0|]. split; [nonnil|]. apply D_null; auto.
Qed.

Lemma gexpression f st x st' : p_expression f st = POk x st' ->
  exists seg, mv st st' seg /\ seg <> [] /\ DExpr seg x.
Proof. unfold p_expression. apply gexpr_all. Qed.

(** * Argument names of a procedure, import names, statement terminators *)

Lemma gparams : forall f n st x st', p_params f n st = POk x st' ->
  exists seg, mv st st' seg /\ idents seg x /\ x <> [].
Proof.
  induction f as [|f IH]; intros n st x st' H; [discriminate|]. cbn [p_params] in H.
  destruct (255 <=? n); [discriminate|].
  bind H t st1 E1. cons E1 M1 K1. mtok H TComma st1 b st2 c M2 K2.
  - bind H more st3 E3. apply IH in E3 as (seg & M3 & I3 & N3). inversion H; subst; clear H.
    exists (t :: c :: seg). split; [chain|]. split; [|discriminate].
    cbn [idents]. auto.
  - inversion H; subst; clear H. exists [t]. split; [exact M1|]. split; [|discriminate].
    cbn [idents]. auto.
Qed.

Lemma gimport_names : forall f lb acc st x st', p_import_names f lb acc st = POk x st' ->
  exists seg new, mv st st' seg /\ x = rev acc ++ new /\
    forall names, names_of new = Some names -> strings seg names.
Proof.
  induction f as [|f IH]; intros lb acc st x st' H; [discriminate|]. cbn [p_import_names] in H.
  destruct (63 <=? N.of_nat (length acc)); [destruct acc; discriminate|].
  bind H t st1 E1. cons E1 M1 K1. mtok H TComma st1 b st2 c M2 K2.
  - apply IH in H as (seg & new & M3 & -> & S3).
    exists (t :: c :: seg), (t :: new). split; [chain|]. split; [cbn [rev]; lists|].
    intros names Hn. cbn [names_of] in Hn. unfold lit_string in Hn.
    destruct (tlit t) as [| |s] eqn:El; try discriminate Hn.
    destruct (names_of new) as [l|] eqn:En; [|discriminate Hn]. inversion Hn; subst; clear Hn.
    pose proof (S3 l eq_refl) as S4. pose proof (strings_nonnil _ _ S4) as N4.
    destruct seg as [|a seg]; cbn [strings fst snd]; auto 10.
  - inversion H; subst; clear H. exists [t], [t]. split; [exact M1|]. split; [reflexivity|].
    intros names Hn. cbn [names_of] in Hn. unfold lit_string in Hn.
    destruct (tlit t) as [| |s] eqn:El; try discriminate Hn. inversion Hn; subst; clear Hn.
    cbn [strings fst snd]. auto.
Qed.

Lemma gend_of_statement st x st' : end_of_statement st = POk x st' ->
  exists tail, mv st st' tail /\ opt_semi tail.
Proof.
  unfold end_of_statement. destruct (at_end st || check TRightBrace st); intro H.
  - inversion H; subst. exists []. split; [apply mv_nil|left; reflexivity].
  - bind H t st1 E1. cons E1 M1 K1. inversion H; subst. exists [t]. split; [exact M1|].
    right. exists t. auto.
Qed.

(** * One step of each statement function *)

Lemma p_declaration_S f st : p_declaration (S f) st =
  match match_toks [TExport; TProcedure] st with
  | (true, st1) => p_procedure f st1
  | (false, _) => p_statement f st
  end.
Proof. reflexivity. Qed.

Lemma p_procedure_S f st : p_procedure (S f) st =
  with_prev st (fun eop =>
  do pe, st1 <- (if tk_eqb (tkind eop) TExport
                 then do pt, s1 <- consume TProcedure (fun t => mkPErr PC_standalone_export [tspan t; tspan t]) st; POk (pt, true) s1
                 else POk (eop, false) st);
  let '(proc_token, exported) := pe in
  do name_token, st2 <- consume TIdentifier (fun t => mkPErr PC_unnamed_procedure [tspan proc_token; tspan t]) st1;
  do _lp, st3 <- consume TLeftParen (fun t => mkPErr PC_missing_lp [tspan t; tspan name_token]) st2;
  do params, st4 <- (if check TRightParen st3 then POk [] st3 else p_params f 0 st3);
  do _rp, st5 <- consume TRightParen (fun t => mkPErr PC_missing_rp [tspan t]) st4;
  let fn0 := in_fn st5 in
  let lp0 := in_loop st5 in
  do body, st6 <- restore fn0 lp0 (p_statement f (set_flags st5 true false));
  POk (SProc (tlex name_token) exported params body) st6).
Proof. reflexivity. Qed.

Lemma p_statement_S f st : p_statement (S f) st =
  with_peek st (fun t =>
  if at_end st then p_expr_stmt f st else
  match tkind t with
  | TImport => p_import f (advance st)
  | TIf => p_if f t (advance st)
  | TRepeat =>
    let st1 := advance st in
    let lp0 := in_loop st1 in
    restore (in_fn st1) lp0
      (let st2 := set_flags st1 (in_fn st1) true in
       if check TUntil st2 then p_repeat_until f st2 else p_repeat_times f st2)
  | TFor =>
    let st1 := advance st in
    restore (in_fn st1) (in_loop st1) (p_for_each f (set_flags st1 (in_fn st1) true))
  | TLeftBrace => p_block f t [] (advance st)
  | TContinue => let st1 := advance st in if in_loop st1 then POk SContinue st1 else fail st1
  | TBreak => let st1 := advance st in if in_loop st1 then POk SBreak st1 else fail st1
  | TReturn =>
    let st1 := advance st in
    if negb (in_fn st1) then fail st1 else
    if at_end st1 || check TRightBrace st1 then POk (SReturn None) st1 else
    match match_tok TSoftSemi st1 with
    | (true, st2) => POk (SReturn None) st2
    | (false, _) =>
      do e, st2 <- p_expression f st1;
      do _u, st3 <- end_of_statement st2;
      POk (SReturn (Some e)) st3
    end
  | _ => p_expr_stmt f st
  end).
Proof. reflexivity. Qed.

Lemma p_expr_stmt_S f st : p_expr_stmt (S f) st =
  (do e, st1 <- p_expression f st;
   if at_end st1 then POk (SExpr e) st1
   else if check TRightBrace st1 then POk (SExpr e) st1
   else do _t, st2 <- consume TSoftSemi (fun t => mkPErr PC_missing_eol [tspan t]) st1; POk (SExpr e) st2).
Proof. reflexivity. Qed.

Lemma p_block_S f lb acc st : p_block (S f) lb acc st =
  if negb (check TRightBrace st) && negb (at_end st) then
    match match_tok TSoftSemi st with
    | (true, st1) => p_block f lb acc st1
    | (false, _) =>
      do s, st1 <- p_declaration f st;
      p_block f lb (s :: acc) st1
    end
  else
    do _rb, st1 <- consume TRightBrace (fun _ => mkPErr PC_missing_rb [tspan lb]) st;
    POk (SBlock (rev acc)) st1.
Proof. reflexivity. Qed.

Lemma p_if_S f if_token st : p_if (S f) if_token st =
  (do _lp, st1 <- consume TLeftParen (fun t => mkPErr PC_missing_lp [tspan t; tspan if_token]) st;
   do c, st2 <- p_expression f st1;
   do _rp, st3 <- consume TRightParen (fun t => mkPErr PC_missing_rp [tspan t]) st2;
   do th, st4 <- p_statement f st3;
   match match_tok TElse st4 with
   | (true, st5) => do el, st6 <- p_statement f st5; POk (SIf c th (Some el)) st6
   | (false, _) => POk (SIf c th None) st4
   end).
Proof. reflexivity. Qed.

Lemma p_repeat_times_S f st : p_repeat_times (S f) st =
  (do n, st1 <- p_expression f st;
   with_prev st1 (fun count_token =>
   do _t, st2 <- consume TTimes (fun t => mkPErr PC_missing_times [tspan t]) st1;
   do body, st3 <- p_statement f st2;
   POk (SRepeatTimes (tspan count_token) n body) st3)).
Proof. reflexivity. Qed.

Lemma p_repeat_until_S f st : p_repeat_until (S f) st =
  (do until_token, st1 <- consume TUntil err0 st;
   do _lp, st2 <- consume TLeftParen (fun t => mkPErr PC_missing_lp [tspan t; tspan until_token]) st1;
   do c, st3 <- p_expression f st2;
   do _rp, st4 <- consume TRightParen (fun t => mkPErr PC_missing_rp [tspan t]) st3;
   do body, st5 <- p_statement f st4;
   POk (SRepeatUntil c body) st5).
Proof. reflexivity. Qed.

Lemma p_for_each_S f st : p_for_each (S f) st =
  (do each_token, st1 <- consume TEach (fun t => mkPErr PC_missing_each [tspan t]) st;
   do item, st2 <- consume TIdentifier (fun t => mkPErr PC_missing_ident [tspan each_token; tspan t]) st1;
   do _in, st3 <- consume TIn (fun t => mkPErr PC_missing_in [tspan item; tspan t]) st2;
   do l, st4 <- p_expression f st3;
   with_prev st4 (fun list_token =>
   do body, st5 <- p_statement f st4;
   POk (SForEach (tlex item) (tspan item) (tspan list_token) l body) st5)).
Proof. reflexivity. Qed.

Lemma p_import_S f st : p_import (S f) st =
  (do only, st1 <-
    (match match_tok TLeftBracket st with
     | (true, s1) =>
       with_prev s1 (fun lbracket =>
       do names, s2 <- p_import_names f lbracket [] s1;
       do _rb, s3 <- consume TRightBracket err0 s2;
       POk (Some names) s3)
     | (false, _) =>
       match match_tok TStringLiteral st with
       | (true, s1) => with_prev s1 (fun one => POk (Some [one]) s1)
       | (false, _) => POk None st
       end
     end);
  do _from, st2 <- (match only with
                    | Some _ => do t, s <- consume TFrom err0 st1; POk tt s
                    | None => POk tt st1
                    end);
  do _mod, st3 <- consume TMod err0 st2;
  do name, st4 <- consume TStringLiteral err0 st3;
  do _u, st5 <- end_of_statement st4;
  match lit_string name, (match only with Some ts => option_map Some (names_of ts) | None => Some None end) with
  | Some m, Some o => POk (SImport m (tspan name) o) st5
  | _, _ => PPanic PanicLiteral
  end).
Proof. reflexivity. Qed.

(** * Statements *)

Definition gstmt (f : nat) : Prop :=
  (forall st x st', p_declaration f st = POk x st' -> exists seg, mv st st' seg /\ DStmt seg x) /\
  (forall st x st' eop, prevt st = Some eop -> tkind eop = TExport \/ tkind eop = TProcedure ->
     p_procedure f st = POk x st' -> exists seg, mv st st' seg /\ DStmt (eop :: seg) x) /\
  (forall st x st', p_statement f st = POk x st' -> exists seg, mv st st' seg /\ DStmt seg x) /\
  (forall st x st', p_expr_stmt f st = POk x st' -> exists seg, mv st st' seg /\ DStmt seg x) /\
  (forall lb acc st x st', p_block f lb acc st = POk x st' ->
     exists segs ss rb, mv st st' (segs ++ [rb]) /\ tkind rb = TRightBrace /\
       x = SBlock (rev acc ++ ss) /\ DStmts segs ss) /\
  (forall kw st x st', tkind kw = TIf -> p_if f kw st = POk x st' ->
     exists seg, mv st st' seg /\ DStmt (kw :: seg) x) /\
  (forall kw st x st', tkind kw = TRepeat -> p_repeat_times f st = POk x st' ->
     exists seg, mv st st' seg /\ DStmt (kw :: seg) x) /\
  (forall kw st x st', tkind kw = TRepeat -> p_repeat_until f st = POk x st' ->
     exists seg, mv st st' seg /\ DStmt (kw :: seg) x) /\
  (forall kw st x st', tkind kw = TFor -> p_for_each f st = POk x st' ->
     exists seg, mv st st' seg /\ DStmt (kw :: seg) x) /\
  (forall kw st x st', tkind kw = TImport -> p_import f st = POk x st' ->
     exists seg, mv st st' seg /\ DStmt (kw :: seg) x).

Lemma lit_string_inv t m : lit_string t = Some m -> tlit t = LStr m.
Proof. unfold lit_string. destruct (tlit t); intro H; inversion H; reflexivity. Qed.

Lemma gstmt_all : forall f, gstmt f.
Proof.
  induction f as [|f (IHd & IHpr & IHs & IHes & IHb & IHif & IHrt & IHru & IHfe & IHim)].
  { repeat split; intros; discriminate. }
  repeat split.
  - (* p_declaration *)
    intros st x st' H. rewrite p_declaration_S in H.
    mtoks H [TExport; TProcedure] st b st1 t M1 K1.
    + assert (Kt : tkind t = TExport \/ tkind t = TProcedure).
      { destruct K1 as [K1|[K1|[]]]; auto. }
      destruct (IHpr _ _ _ t (mv_one_prev _ _ _ M1) Kt H) as (seg & M & D).
      exists (t :: seg). split; [chain|exact D].
    + eapply IHs; eauto.
  - (* p_procedure *)
    intros st x st' eop Pe Ke H. rewrite p_procedure_S in H. unfold with_prev at 1 in H. rewrite Pe in H.
    bind H pe st1 E1. destruct pe as [kw exported].
    assert (A1 : exists pre, mv st st1 pre /\ tkind kw = TProcedure /\
              ((exported = false /\ pre = [] /\ kw = eop) \/
               (exported = true /\ tkind eop = TExport /\ pre = [kw]))).
    { destruct (tk_eqb (tkind eop) TExport) eqn:Et.
      - bind E1 pt s1 E0. cons E0 M0 K0. inversion E1; subst. exists [kw]. split; [exact M0|].
        split; [exact K0|]. right. apply tk_eqb_eq in Et. auto.
      - inversion E1; subst. exists []. split; [apply mv_nil|]. split.
        + destruct Ke as [Ke|Ke]; [rewrite Ke in Et; discriminate Et|exact Ke].
        + left. auto. }
    clear E1. destruct A1 as (pre & M1 & Kkw & Hpre).
    bind H name st2 E2. cons E2 M2 K2. bind H lp st3 E3. cons E3 M3 K3.
    bind H params st4 E4.
    assert (A4 : exists ps, mv st3 st4 ps /\ idents ps params).
    { destruct (check TRightParen st3).
      - inversion E4; subst. exists []. split; [apply mv_nil|exact I].
      - apply gparams in E4 as (ps & M4 & I4 & _). eauto. }
    clear E4. destruct A4 as (ps & M4 & I4).
    bind H rp st5 E5. cons E5 M5 K5. cbv zeta in H. bind H body st6 E6.
    apply restore_inv in E6 as (st0 & E6 & R6). apply IHs in E6 as (segb & M6 & D6).
    apply mv_flags in M6. inversion H; subst; clear H.
    destruct Hpre as [(-> & -> & ->)|(-> & Kex & ->)].
    + exists (name :: lp :: ps ++ rp :: segb). split; [chain|].
      apply (DS_proc [] eop name lp ps params rp segb body false); auto.
    + exists (kw :: name :: lp :: ps ++ rp :: segb). split; [chain|].
      apply (DS_proc [eop] kw name lp ps params rp segb body true); auto.
      right. split; [reflexivity|]. exists eop. auto.
  - (* p_statement *)
    intros st x st' H. rewrite p_statement_S in H. unfold with_peek in H.
    destruct (rest st) as [|t r] eqn:Er; [discriminate|].
    destruct (at_end st) eqn:Ee; [eapply IHes; eauto|].
    assert (Hk : tkind t <> TEof).
    { apply at_end_inv in Ee as (t' & r' & E' & Hk). rewrite Er in E'. inversion E'; subst. exact Hk. }
    pose proof (advance_mv st t r Er Hk) as M0. clear Hk.
    destruct (tkind t) eqn:Ek; try (eapply IHes; eauto; fail); cbv zeta in H.
    + (* { *)
      apply IHb in H as (segs & ss & rb & M & K & -> & DS).
      exists (t :: segs ++ [rb]). split; [chain|]. cbn [rev app]. apply DS_block; auto.
    + (* IF *)
      apply IHif in H as (seg & M & D); [|exact Ek]. exists (t :: seg). split; [chain|exact D].
    + (* REPEAT *)
      apply restore_inv in H as (st0 & H & R0).
      destruct (check TUntil (set_flags (advance st) (in_fn (advance st)) true)).
      * apply (IHru t) in H as (seg & M & D); [|exact Ek]. apply mv_flags in M.
        exists (t :: seg). split; [chain|exact D].
      * apply (IHrt t) in H as (seg & M & D); [|exact Ek]. apply mv_flags in M.
        exists (t :: seg). split; [chain|exact D].
    + (* FOR *)
      apply restore_inv in H as (st0 & H & R0).
      apply (IHfe t) in H as (seg & M & D); [|exact Ek]. apply mv_flags in M.
      exists (t :: seg). split; [chain|exact D].
    + (* CONTINUE *)
      destruct (in_loop (advance st)); inversion H; subst.
      exists [t]. split; [exact M0|apply DS_continue; exact Ek].
    + (* BREAK *)
      destruct (in_loop (advance st)); inversion H; subst.
      exists [t]. split; [exact M0|apply DS_break; exact Ek].
    + (* RETURN *)
      destruct (negb (in_fn (advance st))); [discriminate|].
      destruct (at_end (advance st) || check TRightBrace (advance st)).
      { inversion H; subst. exists [t]. split; [exact M0|].
        apply DS_return; [exact Ek|left; reflexivity]. }
      mtok H TSoftSemi (advance st) b st2 semi M2 K2.
      * inversion H; subst. exists [t; semi]. split; [chain|].
        apply DS_return; [exact Ek|right; exists semi; auto].
      * bind H e st2 E2. apply gexpression in E2 as (s2 & M2 & N2 & D2).
        bind H u st3 E3. apply gend_of_statement in E3 as (tail & M3 & O3).
        inversion H; subst. exists (t :: s2 ++ tail). split; [chain|].
        apply DS_return_val; auto.
    + (* IMPORT *)
      apply (IHim t) in H as (seg & M & D); [|exact Ek]. exists (t :: seg). split; [chain|exact D].
  - (* p_expr_stmt *)
    intros st x st' H. rewrite p_expr_stmt_S in H.
    bind H e st1 E1. apply gexpression in E1 as (s1 & M1 & N1 & D1).
    destruct (at_end st1).
    { inversion H; subst. exists (s1 ++ []). split; [chain|]. apply DS_expr; [exact D1|left; reflexivity]. }
    destruct (check TRightBrace st1).
    { inversion H; subst. exists (s1 ++ []). split; [chain|]. apply DS_expr; [exact D1|left; reflexivity]. }
    bind H t st2 E2. cons E2 M2 K2. inversion H; subst.
    exists (s1 ++ [t]). split; [chain|]. apply DS_expr; [exact D1|right; exists t; auto].
  - (* p_block *)
    intros lb acc st x st' H. rewrite p_block_S in H.
    destruct (negb (check TRightBrace st) && negb (at_end st)).
    + mtok H TSoftSemi st b st1 semi M1 K1.
      * apply IHb in H as (segs & ss & rb & M & K & -> & DS).
        exists (semi :: segs), ss, rb. split; [chain|]. split; [exact K|]. split; [reflexivity|].
        apply DSS_semi; auto.
      * bind H s0 st1 E1. apply IHd in E1 as (seg & M1 & D1).
        apply IHb in H as (segs & ss & rb & M & K & -> & DS).
        exists (seg ++ segs), (s0 :: ss), rb. split; [chain|]. split; [exact K|].
        split; [cbn [rev]; rewrite <- app_assoc; reflexivity|]. apply DSS_cons; auto.
    + bind H rb st1 E1. cons E1 M1 K1. inversion H; subst.
      exists [], [], rb. split; [exact M1|]. split; [exact K1|]. split; [rewrite app_nil_r; reflexivity|].
      apply DSS_nil.
  - (* p_if *)
    intros kw st x st' Kkw H. rewrite p_if_S in H.
    bind H lp st1 E1. cons E1 M1 K1. bind H c st2 E2. apply gexpression in E2 as (s2 & M2 & N2 & D2).
    bind H rp st3 E3. cons E3 M3 K3. bind H th st4 E4. apply IHs in E4 as (s4 & M4 & D4).
    mtok H TElse st4 b st5 el M5 K5.
    + bind H e6 st6 E6. apply IHs in E6 as (s6 & M6 & D6). inversion H; subst.
      exists (lp :: s2 ++ rp :: s4 ++ el :: s6). split; [chain|]. apply DS_if_else; auto.
    + inversion H; subst. exists (lp :: s2 ++ rp :: s4). split; [chain|]. apply DS_if; auto.
  - (* p_repeat_times *)
    intros kw st x st' Kkw H. rewrite p_repeat_times_S in H.
    bind H n st1 E1. apply gexpression in E1 as (s1 & M1 & N1 & D1). prev H ct Ep.
    destruct (mv_last _ _ _ M1 N1) as (pre & t & Es & Pt). rewrite Pt in Ep. inversion Ep; subst ct.
    bind H tm st2 E2. cons E2 M2 K2. bind H body st3 E3. apply IHs in E3 as (s3 & M3 & D3).
    inversion H; subst x st3. exists (s1 ++ tm :: s3). split; [chain|].
    apply DS_times; auto. exists pre. exact Es.
  - (* p_repeat_until *)
    intros kw st x st' Kkw H. rewrite p_repeat_until_S in H.
    bind H ut st1 E1. cons E1 M1 K1. bind H lp st2 E2. cons E2 M2 K2.
    bind H c st3 E3. apply gexpression in E3 as (s3 & M3 & N3 & D3).
    bind H rp st4 E4. cons E4 M4 K4. bind H body st5 E5. apply IHs in E5 as (s5 & M5 & D5).
    inversion H; subst. exists (ut :: lp :: s3 ++ rp :: s5). split; [chain|]. apply DS_until; auto.
  - (* p_for_each *)
    intros kw st x st' Kkw H. rewrite p_for_each_S in H.
    bind H et st1 E1. cons E1 M1 K1. bind H item st2 E2. cons E2 M2 K2. bind H kin st3 E3. cons E3 M3 K3.
    bind H l st4 E4. apply gexpression in E4 as (s4 & M4 & N4 & D4). prev H ltok Ep.
    destruct (mv_last _ _ _ M4 N4) as (pre & t & Es & Pt). rewrite Pt in Ep. inversion Ep; subst ltok.
    bind H body st5 E5. apply IHs in E5 as (s5 & M5 & D5). inversion H; subst x st5.
    exists (et :: item :: kin :: s4 ++ s5). split; [chain|]. apply DS_foreach; auto. exists pre. exact Es.
  - (* p_import *)
    intros kw st x st' Kkw H. rewrite p_import_S in H.
    bind H only st1 E1.
    assert (A1 : exists pre, mv st st1 pre /\
      ((only = None /\ pre = []) \/
       (exists one, only = Some [one] /\ pre = [one] /\ tkind one = TStringLiteral) \/
       (exists lb ns toks rb, only = Some toks /\ pre = lb :: ns ++ [rb] /\ tkind lb = TLeftBracket /\
          tkind rb = TRightBracket /\ forall names, names_of toks = Some names -> strings ns names))).
    { mtok E1 TLeftBracket st b s1 lb M1 K1.
      - prev E1 lbr Ep. same M1 Ep. bind E1 toks s2 E2.
        apply gimport_names in E2 as (ns & new & M2 & -> & S2). cbn [rev app] in *.
        bind E1 rb s3 E3. cons E3 M3 K3. inversion E1; subst.
        exists (lbr :: ns ++ [rb]). split; [chain|]. right. right. exists lbr, ns, new, rb. auto.
      - mtok E1 TStringLiteral st b s1 ton M1 K1.
        + prev E1 one' Ep. same M1 Ep. inversion E1; subst.
          exists [one']. split; [exact M1|]. right. left. exists one'. auto.
        + inversion E1; subst. exists []. split; [apply mv_nil|]. left. auto. }
    clear E1. destruct A1 as (pre & M1 & Hpre).
    bind H u2 st2 E2. bind H md st3 E3. cons E3 M3 K3. bind H name st4 E4. cons E4 M4 K4.
    bind H u5 st5 E5. apply gend_of_statement in E5 as (tail & M5 & O5).
    destruct (lit_string name) as [m|] eqn:El; [|discriminate]. apply lit_string_inv in El.
    destruct Hpre as [(-> & ->)|[(one & -> & -> & Kone)|(lb & ns & toks & rb & -> & -> & Klb & Krb & Hs)]].
    + inversion E2; subst. inversion H; subst.
      exists (md :: name :: tail). split; [chain|]. apply DS_import_all; auto.
    + bind E2 fr s E0. cons E0 M0 K0. inversion E2; subst.
      cbn [names_of option_map] in H. destruct (lit_string one) as [fn|] eqn:Eo; [|discriminate].
      apply lit_string_inv in Eo. cbn [option_map] in H. inversion H; subst.
      exists (one :: fr :: md :: name :: tail). split; [chain|]. apply DS_import_one; auto.
    + bind E2 fr s E0. cons E0 M0 K0. inversion E2; subst.
      destruct (names_of toks) as [names|] eqn:En; [|discriminate]. cbn [option_map] in H.
      inversion H; subst.
      exists (lb :: ns ++ rb :: fr :: md :: name :: tail). split; [chain|].
      apply DS_import_list; auto.
Qed.

Lemma gdeclaration f st x st' : p_declaration f st = POk x st' ->
  exists seg, mv st st' seg /\ DStmt seg x.
Proof. apply gstmt_all. Qed.

(** * The program loop *)

(* once an error has been recorded the loop cannot accept: an accepted program ran no
   error recovery *)
Lemma program_loop_errs inner : forall fuel st stmts errs p,
  errs <> [] -> program_loop fuel inner st stmts errs <> ParseOk p.
Proof.
  induction fuel as [|fuel IH]; intros st stmts errs p He H; [discriminate|].
  cbn [program_loop] in H. destruct (rest st) as [|t0 r0]; [discriminate|].
  destruct (at_end st).
  { destruct errs; [contradiction|discriminate]. }
  destruct (match_tok TSoftSemi st) as [[|] st1].
  { eapply IH; eauto. }
  destruct (p_declaration inner st) as [s st1'|e st1'|site|]; try discriminate.
  - eapply IH; eauto.
  - eapply IH; [|exact H]. discriminate.
Qed.

Lemma program_loop_sound inner : forall fuel st stmts p,
  program_loop fuel inner st stmts [] = ParseOk p ->
  exists segs ss eof r, rest st = segs ++ eof :: r /\ tkind eof = TEof /\
    p = rev stmts ++ ss /\ DStmts segs ss.
Proof.
  induction fuel as [|fuel IH]; intros st stmts p H; [discriminate|].
  cbn [program_loop] in H. destruct (rest st) as [|t0 r0] eqn:Er; [discriminate|].
  destruct (at_end st) eqn:Ee.
  { inversion H; subst. unfold at_end in Ee. rewrite Er in Ee. apply tk_eqb_eq in Ee.
    exists [], [], t0, r0. split; [reflexivity|]. split; [exact Ee|].
    split; [rewrite app_nil_r; reflexivity|apply DSS_nil]. }
  rewrite <- Er. clear Er t0 r0.
  mtok H TSoftSemi st b st1 semi M1 K1.
  { apply IH in H as (segs & ss & eof & r & E & Ke & -> & DS).
    exists (semi :: segs), ss, eof, r. split.
    - rewrite (mv_rest _ _ _ M1), E. reflexivity.
    - split; [exact Ke|]. split; [reflexivity|apply DSS_semi; auto]. }
  destruct (p_declaration inner st) as [s st1|e st1|site|] eqn:Ed; try discriminate.
  - apply gdeclaration in Ed as (seg & M & D).
    apply IH in H as (segs & ss & eof & r & E & Ke & -> & DS).
    exists (seg ++ segs), (s :: ss), eof, r. split.
    + rewrite (mv_rest _ _ _ M), E, app_assoc. reflexivity.
    + split; [exact Ke|]. split; [cbn [rev]; rewrite <- app_assoc; reflexivity|apply DSS_cons; auto].
  - exfalso. eapply program_loop_errs; [|exact H]. discriminate.
Qed.

(** * The theorem of Props/C11b.v *)

(* what is needed of the token sequence: nothing follows the first end-of-input token *)
Definition eof_last (ts : list token) : Prop :=
  forall pre t r, ts = pre ++ t :: r -> tkind t = TEof -> r = [].

Lemma shaped_eof_last ts : shaped ts -> eof_last ts.
Proof.
  intros (body & eof & E & _ & Hb & _) pre t r E' Hk. subst ts.
  destruct r as [|x r]; [reflexivity|exfalso].
  destruct (exists_last (l := x :: r)) as (r' & y & Ey); [discriminate|]. rewrite Ey in E'.
  change (pre ++ t :: r' ++ [y]) with (pre ++ (t :: r') ++ [y]) in E'. rewrite app_assoc in E'.
  apply app_inj_tail in E' as [E' _]. subst body.
  apply Forall_app in Hb as [_ Hb]. inversion Hb; subst. contradiction.
Qed.

Lemma parse_sound_eof_last : forall ts p, eof_last ts -> parse_tokens ts = ParseOk p -> DProg ts p.
Proof.
  intros ts p Hs H. unfold parse_tokens in H.
  apply program_loop_sound in H as (segs & ss & eof & r & E & Ke & -> & DS). cbn [rest] in E.
  pose proof (Hs _ _ _ E Ke) as ->. exists segs, eof. auto.
Qed.

Lemma parse_sound : forall ts p, shaped ts -> parse_tokens ts = ParseOk p -> DProg ts p.
Proof. intros ts p Hs. apply parse_sound_eof_last. apply shaped_eof_last. exact Hs. Qed.

(** * Without the hypothesis on the token sequence the statement is false: the program loop stops
    at the first end-of-input token, whatever follows it *)

Definition cx_eof : token := mkToken TEof 0 0 [] LNone.
Definition cx_junk : token := mkToken TTrue 0 4 [84; 82; 85; 69] LNone.

Lemma cx_accepted : parse_tokens [cx_eof; cx_junk] = ParseOk [].
Proof. vm_compute. reflexivity. Qed.

Lemma cx_not_derivable : ~ DProg [cx_eof; cx_junk] [].
Proof.
  intros (body & eof & E & Ke & _).
  change [cx_eof; cx_junk] with ([cx_eof] ++ [cx_junk]) in E.
  apply app_inj_tail in E as [_ E]. subst eof. discriminate Ke.
Qed.

Lemma parse_sound_needs_shape : ~ (forall ts p, parse_tokens ts = ParseOk p -> DProg ts p).
Proof. intro H. exact (cx_not_derivable (H _ _ cx_accepted)). Qed.
