(** Tables: the vocabulary of the tables regenerated from the interpreter and the
    standard library (patterns, actions, argument kinds). *)
From Aplang Require Import Base Token Ast.

(* value patterns of a match arm *)
Inductive vpat := PAny | PNum | PStr | PBool | PList | PNull | PObj.

Inductive cmpop := CLt | CLe | CGt | CGe.
Inductive arith := OAdd | OSub | OMul.
Inductive divop := ODiv | OMod.

(* what an arm of Interpreter::binary does with operands a, b *)
Inductive baction :=
| AEq | ANeq
| ACmp (c : cmpop)
| AArith (o : arith)
| AGuarded (o : divop) (msg : string)     (* if b != 0.0 { a o b } else error msg at the operator *)
| AConcat                                 (* format!("{a}{b}") *)
| AListConcat                             (* a fresh list holding the items of a then of b *)
| AErr (msg : string)
| AUnknown.
Record barm := mkBArm { ba_l : vpat; ba_op : option binop; ba_r : vpat; ba_act : baction }.

Inductive uaction := UNeg | UNot_ | UErr (msg : string) | UUnknown.
Record uarm := mkUArm { ua_op : option unop; ua_v : vpat; ua_act : uaction }.

Inductive qaction := QEps | QSame | QTrue | QFalse | QUnknown.
Record qarm := mkQArm { qa_l : vpat; qa_r : vpat; qa_act : qaction }.

Inductive yaction := YBoolValue | YZeroFalse | YConst (b : bool) | YUnknown.
Record yarm := mkYArm { ya_v : vpat; ya_act : yaction }.

(* argument kinds of std_function! parameters *)
Inductive okind := OMap | ORobot.
Inductive akind := KAny | KNum | KStr | KBool | KList | KNull | KObj (o : okind).

Inductive mathfn := MFn (name : string) | MClamp | MConst (name : string) | MUnknown.
