(** Ast: syntax trees (src/parser/ast.rs).  A node keeps the byte ranges ([span]) of the
    tokens its runtime diagnostics need, as the Rust nodes keep the tokens themselves. *)
From Aplang Require Import Base FloatX Token.
Open Scope N_scope.

Definition span := (N * N)%type.          (* byte offset, byte length *)
Definition tspan (t : token) : span := (toff t, tlen t).
(* token.rs span_between: from the end of [l] to the start of [r] *)
Definition span_between (l r : span) : span := (fst l + snd l, fst r - (fst l + snd l)).

Inductive binop :=
| BEqualEqual | BNotEqual | BLess | BLessEqual | BGreater | BGreaterEqual
| BPlus | BMinus | BStar | BSlash | BModulo.
Inductive logop := LOr | LAnd.
Inductive unop := UMinus | UNot.

Inductive expr :=
| EGroup (e : expr)
| ENum (f : float)
| EStr (s : text)
| ETrue | EFalse | ENull
| EBin (op : binop) (tok : span) (l r : expr)
| ELog (op : logop) (tok : span) (l r : expr)
| EUn (op : unop) (tok : span) (e : expr)
| ECall (name : text) (tok lp rp : span) (arg_spans : list span) (args : list expr)
| EAccess (list_tok lb rb : span) (l k : expr)
| EList (lb rb : span) (items : list expr)
| EVar (name : text) (tok : span)
| EAssign (name : text) (tok arrow : span) (v : expr)
| ESet (list_tok lb rb arrow : span) (l i v : expr).

Inductive stmt :=
| SExpr (e : expr)
| SIf (c : expr) (t : stmt) (e : option stmt)
| SRepeatTimes (count_tok : span) (n : expr) (body : stmt)
| SRepeatUntil (c : expr) (body : stmt)
| SForEach (name : text) (item_tok list_tok : span) (l : expr) (body : stmt)
| SProc (name : text) (exported : bool) (params : list text) (body : stmt)
| SBlock (ss : list stmt)
| SReturn (e : option expr)
| SContinue
| SBreak
| SImport (modname : text) (mod_tok : span) (only : option (list (text * span))).

Definition binop_name (o : binop) : string :=
  match o with
  | BEqualEqual => "EqualEqual" | BNotEqual => "NotEqual" | BLess => "Less" | BLessEqual => "LessEqual"
  | BGreater => "Greater" | BGreaterEqual => "GreaterEqual" | BPlus => "Plus" | BMinus => "Minus"
  | BStar => "Star" | BSlash => "Slash" | BModulo => "Modulo"
  end%string.
Definition logop_name (o : logop) : string := match o with LOr => "Or" | LAnd => "And" end%string.
Definition unop_name (o : unop) : string := match o with UMinus => "Minus" | UNot => "Not" end%string.

(** size (used as a measure in proofs) *)
Fixpoint expr_size (e : expr) : nat :=
  match e with
  | EGroup e => S (expr_size e)
  | EBin _ _ l r | ELog _ _ l r => S (expr_size l + expr_size r)
  | EUn _ _ e => S (expr_size e)
  | ECall _ _ _ _ _ args => S (fold_right (fun a n => expr_size a + n)%nat 0%nat args)
  | EAccess _ _ _ l k => S (expr_size l + expr_size k)
  | EList _ _ items => S (fold_right (fun a n => expr_size a + n)%nat 0%nat items)
  | EAssign _ _ _ v => S (expr_size v)
  | ESet _ _ _ _ l i v => S (expr_size l + expr_size i + expr_size v)
  | _ => 1%nat
  end.

(** the rungs of the expression ladder (one per parser function) and how a binary rung
    builds its node; used by the table regenerated from parser.rs *)
Inductive level :=
| LvAssignment | LvOr | LvAnd | LvEquality | LvComparison | LvAddition | LvMultiplication
| LvUnary | LvAccess | LvPrimary.
Inductive mkop := MkLog (o : logop) | MkBin.

Definition level_num (l : level) : N :=
  match l with
  | LvAssignment => 0 | LvOr => 1 | LvAnd => 2 | LvEquality => 3 | LvComparison => 4 | LvAddition => 5
  | LvMultiplication => 6 | LvUnary => 7 | LvAccess => 8 | LvPrimary => 9
  end.
Definition level_eqb (a b : level) : bool := level_num a =? level_num b.

(* one binary rung: operator tokens, callee for the first operand, callee inside the loop, node kind *)
Record rung := mkRung { r_ops : list tk; r_first : level; r_loop : level; r_mk : mkop }.
