(** EvalImpl: executable model of the tree-walking evaluator (src/interpreter/interpreter.rs,
    procedure.rs, env.rs) and of the native procedures (src/standard_library/*.rs), after the
    repairs recorded in /verif/known_findings.jsonl.  Every place where the Rust can panic is
    an explicit [RPanic site] outcome.  No proofs here. *)
From Aplang Require Import Base FloatX Token Ast Tables Robot Value StrLib LexImpl ParseImpl.
From Aplang.Gen Require Import Generated.
Open Scope N_scope.

Definition take_while := LexImpl.span.
Notation span := Ast.span (only parsing).

Definition str_eq := String.eqb.

(** ** native procedures *)
Definition interior (l r : span) : span := span_between l r.

Definition nth_span (spans : list span) (i : nat) : span := nth i spans (0, 0).

(* the std_function! prologue: cast the arguments in order *)
Fixpoint check_args (sig : list akind) (args : list value) (spans : list span) (st : state) : res unit :=
  match sig, args, spans with
  | [], _, _ => ROk tt st
  | k :: sig', v :: args', sp :: spans' =>
    let ok := check_args sig' args' spans' st in
    match k, v with
    | KAny, _ => ok
    | KNum, VNum _ | KStr, VStr _ | KBool, VBool _ | KList, VList _ | KNull, VNull => ok
    | KObj o, VObj a =>
      match o, heap_get (heap st) a with
      | OMap, Some (CMap _) | ORobot, Some (CRobot _) => ok
      | _, _ => RErr InvalidObject sp st
      end
    | _, _ => RErr InvalidCast sp st
    end
  | _ :: _, _, _ => RPanic PanicArgs st
  end.

Definition display (st : state) (v : value) (nl : bool) : res value :=
  match show_v st v with
  | None => RFuel
  | Some t => ROk VNull (emit st (if nl then t ++ [10] else t))
  end.

(* input(prompt): display the prompt, read a line of stdin, trim_end *)
Definition read_line (st : state) : text * state :=
  let '(line, rest) := take_while (fun c => negb (c =? 10)) (stdin_ st) in
  (trim_end line, set_stdin st (match rest with _ :: r => r | [] => [] end)).

Definition new_list (st : state) (items : list value) : res value :=
  let '(a, st') := alloc st (CList items) in ROk (VList a) st'.

Definition insert_at {A} (l : list A) (k : nat) (x : A) : list A := firstn k l ++ x :: skipn k l.
Definition remove_at {A} (l : list A) (k : nat) : list A := firstn k l ++ skipn (S k) l.

(* io.rs format(): segments between "{}" interleaved with the displayed items; None = too few items *)
Fixpoint format_segments (segs : list text) (items : list value) (st : state) : option (option text) :=
  (* outer None = show ran out of fuel; inner None = too few items *)
  match segs with
  | [] => Some (Some [])
  | [s] => Some (Some s)
  | s :: rest =>
    match items with
    | [] => Some None
    | v :: items' =>
      match show_v st v, format_segments rest items' st with
      | Some sv, Some (Some r) => Some (Some (s ++ sv ++ r))
      | Some _, Some None => Some None
      | _, _ => None
      end
    end
  end.

Definition libm_lookup (st : state) (name : string) (args : list float) : float :=
  let bits := map float_bits args in
  match find (fun e => str_eq (fst (fst e)) name &&
                       (fix eqs (a b : list N) := match a, b with [] , [] => true | x :: a', y :: b' => (x =? y) && eqs a' b' | _, _ => false end)
                         (snd (fst e)) bits) (o_libm (orc st)) with
  | Some e => float_of_bits (snd e)
  | None => nan          (* the oracle table does not cover this call *)
  end.

Definition f_pi : float := 0x1.921fb54442d18p+1%float.
Definition f_e : float := 0x1.5bf0a8b145769p+1%float.
Definition f_tau : float := 0x1.921fb54442d18p+2%float.

(* Rust's f64::max / f64::min: a NaN operand yields the other operand *)
Definition fmax (a b : float) : float :=
  if is_nan_f a then b else if is_nan_f b then a else if PrimFloat.ltb a b then b else a.
Definition fmin (a b : float) : float :=
  if is_nan_f a then b else if is_nan_f b then a else if PrimFloat.ltb b a then b else a.

Definition math_call (st : state) (name : string) (args : list float) : option float :=
  match find (fun e => str_eq (fst (fst e)) name) math_bodies with
  | None => None
  | Some (_, f, order) =>
    let xs := map (fun i => nth i args nan) order in
    match f with
    | MFn fname =>
      if str_eq fname "round" then Some (round_int RRound (nth 0 xs nan))
      else if str_eq fname "floor" then Some (round_int RFloor (nth 0 xs nan))
      else if str_eq fname "ceil" then Some (round_int RCeil (nth 0 xs nan))
      else if str_eq fname "trunc" then Some (round_int RTrunc (nth 0 xs nan))
      else Some (libm_lookup st fname xs)
    | MClamp => Some (fmin (fmax (nth 0 xs nan) (nth 1 xs nan)) (nth 2 xs nan))
    | MConst c =>
      if str_eq c "PI" then Some f_pi else if str_eq c "E" then Some f_e
      else if str_eq c "TAU" then Some f_tau else None
    | MUnknown => None
    end
  end.

Definition key_fuel (st : state) : nat := S (length (heap st)).

Fixpoint map_find (st : state) (m : list (value * value)) (k : value) : option value :=
  match m with
  | [] => None
  | (k', v) :: r => if key_eq (key_fuel st) (heap st) k' k then Some v else map_find st r k
  end.
Fixpoint map_put (st : state) (m : list (value * value)) (k v : value) : list (value * value) :=
  match m with
  | [] => [(k, v)]
  | (k', v') :: r => if key_eq (key_fuel st) (heap st) k' k then (k', v) :: r else (k', v') :: map_put st r k v
  end.

Definition esc : text := [27].

Definition native_body (m name : string) (args : list value) (spans : list span) (st : state) : res value :=
  let sp i := nth_span spans i in
  match args with
  (* ---------------- zero arguments *)
  | [] =>
    if str_eq name "INPUT" then let '(l, st') := read_line st in ROk (VStr l) st'
    else if str_eq name "TIME" then ROk (VNum (o_clock (orc st))) st
    else if str_eq name "MAP" then let '(a, st') := alloc st (CMap []) in ROk (VObj a) st'
    else if str_eq name "CLEAR_STYLE" then ROk VNull (emit st (esc ++ [91; 48; 109]))
    else if str_eq m "MATH" then
      match math_call st name [] with Some f => ROk (VNum f) st | None => RPanic PanicTable st end
    else RPanic PanicTable st
  (* ---------------- one argument *)
  | [v] =>
    if str_eq name "DISPLAY" then display st v true
    else if str_eq name "DISPLAY_NOLN" then display st v false
    else if str_eq name "LENGTH" then
      match v with
      | VList a => match list_at (heap st) a with Some l => ROk (VNum (of_N (N.of_nat (length l)))) st | None => ROk VNull st end
      | VStr s => ROk (VNum (of_N (N.of_nat (length s)))) st
      | _ => ROk VNull st
      end
    else if str_eq name "SLEEP" then ROk VNull st
    else if str_eq name "INPUT_PROMPT" then
      match v with
      | VStr p => let st1 := emit st p in let '(l, st2) := read_line st1 in ROk (VStr l) st2
      | _ => RPanic PanicTable st
      end
    else if str_eq m "MATH" then
      match v with
      | VNum x => match math_call st name [x] with Some f => ROk (VNum f) st | None => RPanic PanicTable st end
      | _ => RPanic PanicTable st
      end
    else if str_eq m "STRING" then
      match v with
      | VStr s =>
        if str_eq name "TO_NUMBER" then ROk (match parse_f64 s with Some f => VNum f | None => VNull end) st
        else if str_eq name "TO_BOOL" then ROk (match parse_bool s with Some b => VBool b | None => VNull end) st
        else if str_eq name "TO_UPPER" then ROk (VStr (to_upper s)) st
        else if str_eq name "TO_LOWER" then ROk (VStr (to_lower s)) st
        else if str_eq name "TRIM" then ROk (VStr (trim s)) st
        else if str_eq name "TO_CHAR_ARRAY" then new_list st (map (fun c => VStr [c]) s)
        else RPanic PanicTable st
      | _ => RPanic PanicTable st
      end
    else if str_eq name "STYLE" then
      match v with
      | VStr s =>
        match find (fun e => text_eqb (string_bytes (fst e)) (map ascii_lower s)) style_table with
        | Some e => ROk (VBool true) (emit st (esc ++ string_bytes (snd e)))
        | None => ROk (VBool false) st
        end
      | _ => RPanic PanicTable st
      end
    else if str_eq m "ROBOT" then
      if str_eq name "ROBOT_MAP" then
        match v with
        | VStr s => match parse_grid s with
                    | Some r => let '(a, st') := alloc st (CRobot r) in ROk (VObj a) st'
                    | None => ROk VNull st
                    end
        | _ => RPanic PanicTable st
        end
      else
      match v with
      | VObj a =>
        match heap_get (heap st) a with
        | Some (CRobot r) =>
          if str_eq name "MOVE_FORWARD" || str_eq name "MOVE_FOWARD" then
            match move_forward r with
            | Moved r' b => ROk (VBool b) (heap_set st a (CRobot r'))
            | Blocked => RExit st
            | MovedIntoWall => RPanic PanicRobotBug st
            end
          else if str_eq name "ROTATE_LEFT" then ROk VNull (heap_set st a (CRobot (rotate_left r)))
          else if str_eq name "ROTATE_RIGHT" then ROk VNull (heap_set st a (CRobot (rotate_right r)))
          else if str_eq name "FORMAT_ROBOT" then ROk (VStr (render_unicode r)) st
          else if str_eq name "FORMAT_ROBOT_ASCII" then ROk (VStr (render_ascii r)) st
          else RPanic PanicTable st
        | _ => RPanic PanicTable st
        end
      | _ => RPanic PanicTable st
      end
    else RPanic PanicTable st
  (* ---------------- two arguments *)
  | [v1; v2] =>
    if str_eq name "APPEND" then
      match v1 with
      | VList a => match list_at (heap st) a with
                   | Some l => ROk VNull (heap_set st a (CList (l ++ [v2])))
                   | None => RPanic PanicTable st end
      | _ => RPanic PanicTable st
      end
    else if str_eq name "REMOVE" then
      match v1, v2 with
      | VList a, VNum i =>
        match list_at (heap st) a with
        | Some l =>
          let len := N.of_nat (length l) in
          if PrimFloat.leb 1%float i && (to_usize i <=? len) then
            let k := N.to_nat (to_usize i - 1) in
            match nth_error l k with
            | Some x => ROk x (heap_set st a (CList (remove_at l k)))
            | None => RPanic PanicTable st
            end
          else RErr InvalidListIndex (sp 1%nat) st
        | None => RPanic PanicTable st
        end
      | _, _ => RPanic PanicTable st
      end
    else if str_eq name "RANDOM" then
      match v1, v2 with
      | VNum x, VNum y =>
        let lo := to_i64 x in let hi := to_i64 y in
        if (hi <? lo)%Z then RErr InvalidRange (sp 1%nat) st
        else
          let '(d, rest) := match o_draws (orc st) with d :: r => (d, r) | [] => (0, []) end in
          let st' := set_orc st (mkOracle (o_libm (orc st)) rest (o_clock (orc st)) (o_files (orc st)) (o_fs (orc st))) in
          ROk (VNum (of_Z (lo + Z.of_N d mod (hi - lo + 1))%Z)) st'
      | _, _ => RPanic PanicTable st
      end
    else if str_eq m "MATH" then
      match v1, v2 with
      | VNum x, VNum y => match math_call st name [x; y] with Some f => ROk (VNum f) st | None => RPanic PanicTable st end
      | _, _ => RPanic PanicTable st
      end
    else if str_eq name "FORMAT" || str_eq name "DISPLAYF" then
      match v1, v2 with
      | VStr f, VList a =>
        match list_at (heap st) a with
        | Some items =>
          match format_segments (split f [123; 125]) items st with
          | None => RFuel
          | Some None => RErr InvalidFormat (sp 1%nat) st
          | Some (Some t) => if str_eq name "FORMAT" then ROk (VStr t) st else ROk VNull (emit st (t ++ [10]))
          end
        | None => RPanic PanicTable st
        end
      | _, _ => RPanic PanicTable st
      end
    else if str_eq m "STRING" then
      match v1, v2 with
      | VStr s, VStr p =>
        if str_eq name "SPLIT" then new_list st (map VStr (split s p))
        else if str_eq name "CONTAINS" then ROk (VBool (contains_b s p)) st
        else if str_eq name "STARTS_WITH" then ROk (VBool (prefix_b p s)) st
        else if str_eq name "ENDS_WITH" then ROk (VBool (ends_with_b s p)) st
        else RPanic PanicTable st
      | VList a, VStr sep =>
        if str_eq name "JOIN" then
          match list_at (heap st) a with
          | Some items =>
            (fix go (l : list value) (acc : list text) : res value :=
               match l with
               | [] => ROk (VStr (join_with sep (rev acc))) st
               | x :: r => match show_v st x with Some t => go r (t :: acc) | None => RFuel end
               end) items []
          | None => RPanic PanicTable st
          end
        else RPanic PanicTable st
      | _, _ => RPanic PanicTable st
      end
    else if str_eq m "MAP" then
      match v1 with
      | VObj a =>
        match heap_get (heap st) a with
        | Some (CMap mp) =>
          if str_eq name "MAP_GET" then ROk (match map_find st mp v2 with Some v => v | None => VNull end) st
          else if str_eq name "MAP_CONTAINS_KEY" then ROk (VBool (match map_find st mp v2 with Some _ => true | None => false end)) st
          else if str_eq name "MAP_VALUES" then new_list st (map snd mp)
          else if str_eq name "MAP_KEYS" then new_list st (map fst mp)
          else RPanic PanicTable st
        | _ => RPanic PanicTable st
        end
      | _ => RPanic PanicTable st
      end
    else if str_eq name "CAN_MOVE" then
      match v1, v2 with
      | VObj a, VStr d =>
        match heap_get (heap st) a with
        | Some (CRobot r) => ROk (match parse_rel d with Some rl => VBool (can_move r rl) | None => VNull end) st
        | _ => RPanic PanicTable st
        end
      | _, _ => RPanic PanicTable st
      end
    else RPanic PanicTable st
  (* ---------------- three arguments *)
  | [v1; v2; v3] =>
    if str_eq name "INSERT" then
      match v1, v2 with
      | VList a, VNum i =>
        match list_at (heap st) a with
        | Some l =>
          let len := N.of_nat (length l) in
          if PrimFloat.leb 1%float i && (to_usize i <=? len + 1) then
            ROk VNull (heap_set st a (CList (insert_at l (N.to_nat (to_usize i - 1)) v3)))
          else RErr InvalidListIndex (sp 1%nat) st
        | None => RPanic PanicTable st
        end
      | _, _ => RPanic PanicTable st
      end
    else if str_eq name "CLAMP" then
      match v1, v2, v3 with
      | VNum x, VNum y, VNum z => match math_call st name [x; y; z] with Some f => ROk (VNum f) st | None => RPanic PanicTable st end
      | _, _, _ => RPanic PanicTable st
      end
    else if str_eq name "REPLACE" then
      match v1, v2, v3 with
      | VStr s, VStr f, VStr t => ROk (VStr (replace s f t)) st
      | _, _, _ => RPanic PanicTable st
      end
    else if str_eq name "SUBSTRING" then
      match v1, v2, v3 with
      | VStr s, VNum start, VNum len =>
        if PrimFloat.leb 1%float start then ROk (VStr (substring s (to_usize start) (to_usize len))) st
        else RErr InvalidStringIndex (sp 1%nat) st
      | _, _, _ => RPanic PanicTable st
      end
    else if str_eq name "MAP_INSERT" then
      match v1 with
      | VObj a =>
        match heap_get (heap st) a with
        | Some (CMap mp) =>
          ROk (match map_find st mp v2 with Some v => v | None => VNull end) (heap_set st a (CMap (map_put st mp v2 v3)))
        | _ => RPanic PanicTable st
        end
      | _ => RPanic PanicTable st
      end
    else RPanic PanicTable st
  | _ => RPanic PanicTable st
  end.

(** ** the FS module on a tree of files (src/standard_library/file_system.rs over std::fs).
    Paths are compared as written (no normalisation: the checks use canonical absolute paths). *)
Definition fs_t := list (text * fsent).
Fixpoint fs_get (fs : fs_t) (p : text) : option fsent :=
  match fs with [] => None | (q, e) :: r => if text_eqb p q then Some e else fs_get r p end.
Fixpoint fs_del (fs : fs_t) (p : text) : fs_t :=
  match fs with [] => [] | (q, e) :: r => if text_eqb p q then fs_del r p else (q, e) :: fs_del r p end.
Definition fs_put (fs : fs_t) (p : text) (e : fsent) : fs_t := fs_del fs p ++ [(p, e)].

Definition parent_of (p : text) : text :=
  match take_while (fun c => negb (c =? 47)) (rev p) with
  | (_, []) => []
  | (_, _ :: d) => rev d
  end.
Definition is_dir (fs : fs_t) (p : text) : bool := match fs_get fs p with Some FDir => true | _ => false end.
Definition is_file (fs : fs_t) (p : text) : bool := match fs_get fs p with Some (FFile _) => true | _ => false end.
Definition children (fs : fs_t) (p : text) : list text :=
  map fst (filter (fun e => text_eqb (parent_of (fst e)) p) fs).
(* strictly below p: p ++ "/" is a prefix *)
Definition below (p q : text) : bool := prefix_b (p ++ [47]) q.

(* create_dir_all: create the missing ancestors top-down; fails if an existing ancestor is a file *)
Fixpoint mkdir_p (fuel : nat) (fs : fs_t) (p : text) : option fs_t :=
  match fuel with O => None | S f =>
  match fs_get fs p with
  | Some FDir => Some fs
  | Some (FFile _) => None
  | None =>
    match p with
    | [] => None
    | _ => match mkdir_p f fs (parent_of p) with
           | Some fs' => if is_dir fs' (parent_of p) then Some (fs_put fs' p FDir) else None
           | None => None
           end
    end
  end end.

Definition set_fs (st : state) (fs : fs_t) : state :=
  set_orc st (mkOracle (o_libm (orc st)) (o_draws (orc st)) (o_clock (orc st)) (o_files (orc st)) fs).

Definition fs_call (name : string) (args : list value) (st : state) : res value :=
  let fs := o_fs (orc st) in
  let ok (b : bool) := ROk (VBool b) st in
  match args with
  | [VStr p] =>
    if str_eq name "PATH_EXISTS" then ok (match fs_get fs p with Some _ => true | None => false end)
    else if str_eq name "PATH_IS_FILE" then ok (is_file fs p)
    else if str_eq name "PATH_IS_DIRECTORY" then ok (is_dir fs p)
    else if str_eq name "FILE_REMOVE" then
      if is_file fs p then ROk (VBool true) (set_fs st (fs_del fs p)) else ok false
    else if str_eq name "FILE_CREATE" then
      match fs_get fs p with
      | None => if is_dir fs (parent_of p) then ROk (VBool true) (set_fs st (fs_put fs p (FFile []))) else ok false
      | Some _ => ok false
      end
    else if str_eq name "FILE_READ" then
      match fs_get fs p with Some (FFile c) => ROk (VStr c) st | _ => ROk VNull st end
    else if str_eq name "DIRECTORY_READ" then
      if is_dir fs p then new_list st (map VStr (children fs p)) else ROk VNull st
    else if str_eq name "DIRECTORY_CREATE" then
      match fs_get fs p with
      | None => if is_dir fs (parent_of p) then ROk (VBool true) (set_fs st (fs_put fs p FDir)) else ok false
      | Some _ => ok false
      end
    else if str_eq name "DIRECTORY_CREATE_ALL" then
      match mkdir_p (S (length p)) fs p with
      | Some fs' => ROk (VBool true) (set_fs st fs')
      | None => ok false
      end
    else if str_eq name "DIRECTORY_REMOVE" then
      if is_dir fs p && match children fs p with [] => true | _ => false end
      then ROk (VBool true) (set_fs st (fs_del fs p)) else ok false
    else if str_eq name "DIRECTORY_REMOVE_ALL" then
      if is_dir fs p
      then ROk (VBool true) (set_fs st (filter (fun e => negb (text_eqb (fst e) p) && negb (below p (fst e))) fs))
      else ok false
    else RPanic PanicTable st
  | [VStr p; v] =>
    if str_eq name "FILE_APPEND" || str_eq name "FILE_OVERWRITE" then
      match fs_get fs p with
      | Some (FFile c) =>
        match show_v st v with
        | None => RFuel
        | Some t => ROk (VBool true) (set_fs st (fs_put fs p (FFile (if str_eq name "FILE_APPEND" then c ++ t else t))))
        end
      | _ => ok false
      end
    else RPanic PanicTable st
  | _ => RPanic PanicTable st
  end.

Definition native_call (m name : string) (sig : list akind) (args : list value) (spans : list span) (st : state) : res value :=
  let* _u, st1 <- check_args sig args spans st;
  if str_eq m "FS" then fs_call name args st1 else native_body m name args spans st1.

(** the procedures of a library module, as a function table *)
Definition module_table (m : string) : ftable :=
  map (fun e => (string_bytes (snd (fst e)), FNative (fst (fst e)) (snd (fst e)) (snd e)))
      (filter (fun e => str_eq (fst (fst e)) m) std_sigs).

(** ** the operator tables *)
Definition apply_binop (op : binop) (tok : span) (a b : value) (st : state) : res value :=
  match find (fun r => matches (ba_l r) a && matches (ba_r r) b &&
                       match ba_op r with None => true | Some o => binop_eqb o op end) binop_arms with
  | None => RPanic PanicTable st
  | Some r =>
    match ba_act r, a, b with
    | AEq, _, _ => match equals a b with Some x => ROk (VBool x) st | None => RPanic PanicTable st end
    | ANeq, _, _ => match equals a b with Some x => ROk (VBool (negb x)) st | None => RPanic PanicTable st end
    | ACmp c, VNum x, VNum y =>
      ROk (VBool (match c with CLt => PrimFloat.ltb x y | CLe => PrimFloat.leb x y
                            | CGt => PrimFloat.ltb y x | CGe => PrimFloat.leb y x end)) st
    | AArith o, VNum x, VNum y =>
      ROk (VNum (match o with OAdd => PrimFloat.add x y | OSub => PrimFloat.sub x y | OMul => PrimFloat.mul x y end)) st
    | AGuarded o msg, VNum x, VNum y =>
      if is_zero_f y then RErr (kind_of_message msg) tok st
      else ROk (VNum (match o with ODiv => PrimFloat.div x y | OMod => fmod x y end)) st
    | AConcat, VStr s, _ => match show_v st b with Some t => ROk (VStr (s ++ t)) st | None => RFuel end
    | AListConcat, VList x, VList y =>
      match list_at (heap st) x, list_at (heap st) y with
      | Some lx, Some ly => new_list st (lx ++ ly)
      | _, _ => RPanic PanicTable st
      end
    | AErr msg, _, _ => RErr (kind_of_message msg) tok st
    | _, _, _ => RPanic PanicTable st
    end
  end.

Definition apply_unop (op : unop) (tok : span) (v : value) (st : state) : res value :=
  match find (fun r => matches (ua_v r) v && match ua_op r with None => true | Some o => unop_eqb o op end) unop_arms with
  | None => RPanic PanicTable st
  | Some r =>
    match ua_act r, v with
    | UNeg, VNum x => ROk (VNum (PrimFloat.opp x)) st
    | UNot_, _ => match truthy v with Some b => ROk (VBool (negb b)) st | None => RPanic PanicTable st end
    | UErr msg, _ => RErr (kind_of_message msg) tok st
    | _, _ => RPanic PanicTable st
    end
  end.

Definition truthy_r (v : value) (st : state) : res bool :=
  match truthy v with Some b => ROk b st | None => RPanic PanicTable st end.

(** ** statement helpers, parameterised by the evaluator at smaller fuel *)
Section Helpers.
  Variable ev : expr -> state -> res value.
  Variable ex : stmt -> state -> res unit.

  Fixpoint eval_args (es : list expr) (st : state) : res (list value) :=
    match es with
    | [] => ROk [] st
    | e :: r => let* v, st1 <- ev e st; let* vs, st2 <- eval_args r st1; ROk (v :: vs) st2
    end.

  Definition top_flags (st : state) : bool :=
    match loops st with (b, c) :: _ => b || c | [] => false end.

  (* Stmt::Block: run the statements until a flag of the innermost loop or the return slot is set *)
  Fixpoint block_stmts (ss : list stmt) (st : state) : res unit :=
    match ss with
    | [] => ROk tt st
    | s :: r =>
      if top_flags st then ROk tt st
      else match retv st with
           | Some _ => ROk tt st
           | None => let* _u, st1 <- ex s st; block_stmts r st1
           end
    end.

  (* after a loop body: what the loop does next *)
  Inductive after_body := GoOn | Stop.

  (* REPEAT n TIMES: return check, then continue flag, then break flag *)
  Definition after_times (st : state) : option (after_body * state) :=
    match retv st with
    | Some _ => Some (Stop, st)
    | None =>
      match loops st with
      | [] => None
      | (b, c) :: r =>
        if c then Some (GoOn, set_loops st ((b, false) :: r))
        else if b then Some (Stop, set_loops st ((false, c) :: r))
        else Some (GoOn, st)
      end
    end.

  (* REPEAT UNTIL and FOR EACH: return check, then break flag, then continue flag;
     the boolean says whether the iteration completed normally (FOR EACH writes back) *)
  Definition after_until (st : state) : option (after_body * bool * state) :=
    match retv st with
    | Some _ => Some (Stop, false, st)
    | None =>
      match loops st with
      | [] => None
      | (b, c) :: r =>
        if b then Some (Stop, false, set_loops st ((false, c) :: r))
        else if c then Some (GoOn, false, set_loops st ((b, false) :: r))
        else Some (GoOn, true, st)
      end
    end.

  Fixpoint times_loop (k : nat) (n : N) (body : stmt) (st : state) : res unit :=
    match k with O => RFuel | S k' =>
    if n =? 0 then ROk tt st else
    let* _u, st1 <- ex body st;
    match after_times st1 with
    | None => RPanic PanicLoopStack st1
    | Some (Stop, st2) => ROk tt st2
    | Some (GoOn, st2) => times_loop k' (n - 1) body st2
    end end.

  Fixpoint until_loop (k : nat) (c : expr) (body : stmt) (st : state) : res unit :=
    match k with O => RFuel | S k' =>
    let* v, st1 <- ev c st;
    let* t, st2 <- truthy_r v st1;
    if t then ROk tt st2 else
    let* _u, st3 <- ex body st2;
    match after_until st3 with
    | None => RPanic PanicLoopStack st3
    | Some (Stop, _, st4) => ROk tt st4
    | Some (GoOn, _, st4) => until_loop k' c body st4
    end end.

  (* FOR EACH over the live cell [a]: positions i .. len-1 *)
  Fixpoint each_loop (k : nat) (a : nat) (x : text) (i len : nat) (body : stmt) (st : state) : res unit :=
    match k with O => RFuel | S k' =>
    if Nat.leb len i then ROk tt st else
    match list_at (heap st) a with
    | None => RPanic PanicTable st
    | Some l =>
      match nth_error l i with
      | None => ROk tt st                               (* the body shortened the list: stop *)
      | Some item =>
        match define st x item with
        | None => RPanic PanicScope st
        | Some st1 =>
          let* _u, st2 <- ex body st1;
          match after_until st2 with
          | None => RPanic PanicLoopStack st2
          | Some (Stop, _, st3) => ROk tt st3
          | Some (GoOn, false, st3) => each_loop k' a x (S i) len body st3
          | Some (GoOn, true, st3) =>
            (* write the variable back into the element and unbind it *)
            match venv st3 with
            | [] => RPanic PanicScope st3
            | sc :: rest =>
              match scope_get sc x with
              | None => RPanic PanicForEachVar st3
              | Some v =>
                let st4 := set_venv st3 (scope_remove sc x :: rest) in
                let st5 := match list_at (heap st4) a with
                           | Some l' => if Nat.ltb i (length l') then heap_set st4 a (CList (update_nth l' i v)) else st4
                           | None => st4
                           end in
                each_loop k' a x (S i) len body st5
              end
            end
          end
        end
      end
    end end.
End Helpers.

Definition pop_loop (st : state) : res unit :=
  match loops st with [] => RPanic PanicLoopPop st | _ :: r => ROk tt (set_loops st r) end.
Definition push_loop (st : state) : state := set_loops st ((false, false) :: loops st).

(* user modules: path helpers *)
Definition dirname (p : text) : text :=
  let r := rev p in
  match take_while (fun c => negb (c =? 47)) r with
  | (_, []) => []
  | (_, _ :: d) => rev d
  end.
Definition path_join (dir name : text) : text :=
  match name with
  | 47 :: _ => name                          (* absolute *)
  | _ => match dir with [] => name | _ => dir ++ [47] ++ name end
  end.
(* Path::components drops trailing separators and trailing "." components *)
Fixpoint strip_trailing (fuel : nat) (r : text) : text :=
  match fuel with O => r | S f =>
  match r with
  | 47 :: r' => strip_trailing f r'
  | 46 :: 47 :: r' => strip_trailing f (47 :: r')
  | _ => r
  end end.
Definition has_ap_extension (p : text) : bool :=
  (* Path::extension() of the last component, compared case-insensitively with "ap" *)
  let r := strip_trailing (length p) (rev p) in
  let '(ext_rev, rest) := take_while (fun c => negb (c =? 46) && negb (c =? 47)) r in
  match rest with
  | 46 :: before => text_eqb (map ascii_lower (rev ext_rev)) [97; 112]
                    && match before with [] => false | c :: _ => negb (c =? 47) end
  | _ => false
  end.

Definition initial_funcs : ftable := flat_map module_table preloaded.

Definition fresh_state (h : heap_t) (o : list text) (inp : text) (orc0 : oracle) (dir : text) : state :=
  mkState [[]] initial_funcs [] None [] h o inp orc0 dir.

(* the statements of a program, in order (Interpreter::interpret) *)
Fixpoint block_top (ex : stmt -> state -> res unit) (ss : list stmt) (st : state) : res unit :=
  match ss with
  | [] => ROk tt st
  | s :: r => let* _u, st1 <- ex s st; block_top ex r st1
  end.

(** ** the evaluator *)
Fixpoint eval (fuel : nat) (e : expr) (st : state) {struct fuel} : res value :=
  match fuel with O => RFuel | S f =>
  match e with
  | EGroup e1 => eval f e1 st
  | ENum x => ROk (VNum x) st
  | EStr s => ROk (VStr s) st
  | ETrue => ROk (VBool true) st
  | EFalse => ROk (VBool false) st
  | ENull => ROk VNull st
  | EBin op tok l r =>
    let* a, st1 <- eval f l st;
    let* b, st2 <- eval f r st1;
    apply_binop op tok a b st2
  | ELog op tok l r =>
    let* a, st1 <- eval f l st;
    let* t, st2 <- truthy_r a st1;
    let short := match op with LOr => t | LAnd => negb t end in
    if short then ROk a st2 else eval f r st2
  | EUn op tok e1 =>
    let* v, st1 <- eval f e1 st;
    apply_unop op tok v st1
  | ECall name tok lp rp spans args =>
    let* vs, st1 <- eval_args (eval f) args st;
    match ft_get (funcs st1) name with
    | None => RErr InvalidProcedure tok st1
    | Some fnv =>
      let arity_ok :=
        match fnv with
        | FUser params _ => if N.of_nat (length params) <? 256 then Some (Nat.eqb (length params) (length vs)) else None
        | FNative _ _ sig => Some (Nat.eqb (length sig) (length vs))
        end in
      match arity_ok with
      | None => RPanic PanicArity st1
      | Some false => RErr IncorrectArgs (interior lp rp) st1
      | Some true =>
        match fnv with
        | FNative m nm sig => native_call m nm sig vs spans st1
        | FUser params body =>
          (* Procedure::call *)
          let cached := retv st1 in
          let st2 := set_retv (set_venv st1 ([] :: venv st1)) None in
          let st3 := fold_left (fun s pv => match define s (fst pv) (snd pv) with Some s' => s' | None => s end)
                               (combine params vs) st2 in
          let* _u, st4 <- exec f body st3;
          let rv := retv st4 in
          match venv st4 with
          | [] => RPanic PanicScope st4
          | _ :: outer => ROk (match rv with Some v => v | None => VNull end) (set_retv (set_venv st4 outer) cached)
          end
        end
      end
    end
  | EAccess lt lb rb le ke =>
    let* lv, st1 <- eval f le st;
    let* kv, st2 <- eval f ke st1;
    match kv with
    | VNum idx =>
      match lv with
      | VStr s => match nth_N s (index_of idx) with
                  | Some c => ROk (VStr [c]) st2
                  | None => RErr InvalidListIndex (interior lb rb) st2
                  end
      | VList a =>
        match list_at (heap st2) a with
        | Some l => match nth_N l (index_of idx) with
                    | Some v => ROk v st2
                    | None => RErr InvalidListIndex (interior lb rb) st2
                    end
        | None => RPanic PanicTable st2
        end
      | _ => RErr InvalidType lt st2
      end
    | _ => RErr InvalidIndex (interior lb rb) st2
    end
  | EList lb rb items =>
    let* vs, st1 <- eval_args (eval f) items st;
    new_list st1 vs
  | EVar name tok =>
    match lookup st name with
    | None => RPanic PanicScope st
    | Some None => RErr InvalidVariable tok st
    | Some (Some v) => ROk v st
    end
  | EAssign name tok arrow ve =>
    let* v, st1 <- eval f ve st;
    match define st1 name v with
    | None => RPanic PanicScope st1
    | Some st2 => ROk v st2
    end
  | ESet lt lb rb arrow le ie ve =>
    let* lv, st1 <- eval f le st;
    let* iv, st2 <- eval f ie st1;
    let* v, st3 <- eval f ve st2;
    match lv with
    | VList a =>
      match iv with
      | VNum idx =>
        match list_at (heap st3) a with
        | Some l =>
          let k := index_of idx in
          if k <? N.of_nat (length l) then ROk v (heap_set st3 a (CList (update_nth l (N.to_nat k) v)))
          else RErr InvalidListIndex (interior lb rb) st3
        | None => RPanic PanicTable st3
        end
      | _ => RErr InvalidIndex (interior lb rb) st3
      end
    | _ => RErr InvalidType lt st3
    end
  end end

with exec (fuel : nat) (s : stmt) (st : state) {struct fuel} : res unit :=
  match fuel with O => RFuel | S f =>
  match s with
  | SExpr e => let* _v, st1 <- eval f e st; ROk tt st1
  | SIf c t e =>
    let* v, st1 <- eval f c st;
    let* b, st2 <- truthy_r v st1;
    if b then exec f t st2
    else match e with Some e1 => exec f e1 st2 | None => ROk tt st2 end
  | SRepeatTimes ctok n body =>
    let* v, st1 <- eval f n st;
    match v with
    | VNum c =>
      let* _u, st2 <- times_loop (exec f) f (to_usize c) body (push_loop st1);
      pop_loop st2
    | _ => RErr InvalidCount ctok st1
    end
  | SRepeatUntil c body =>
    let* _u, st1 <- until_loop (eval f) (exec f) f c body (push_loop st);
    pop_loop st1
  | SForEach x itok ltok le body =>
    let* lv, st1 <- eval f le st;
    let* a, st2 <-
      (match lv with
       | VList a => ROk a st1
       | VStr s => let '(a, st') := alloc st1 (CList (map (fun c => VStr [c]) s)) in ROk a st'
       | _ => RErr InvalidIterator ltok st1
       end);
    match venv st2 with
    | [] => RPanic PanicScope st2
    | sc :: rest =>
      let cached := scope_get sc x in
      let st3 := push_loop (set_venv st2 (scope_remove sc x :: rest)) in
      let len := match list_at (heap st3) a with Some l => length l | None => 0%nat end in
      let* _u, st4 <- each_loop (exec f) f a x 0 len body st3;
      let* _w, st5 <- pop_loop st4;
      match cached with
      | Some v => match define st5 x v with Some st6 => ROk tt st6 | None => RPanic PanicScope st5 end
      | None => ROk tt st5
      end
    end
  | SProc name exported params body =>
    let fnv := FUser params body in
    let st1 := set_funcs st (ft_set (funcs st) name fnv) in
    ROk tt (if exported then set_exports st1 (ft_set (exports st1) name fnv) else st1)
  | SBlock ss =>
    (* create_nested_layer: push a copy of the innermost scope *)
    match venv st with
    | [] => RPanic PanicScope st
    | sc :: rest =>
      let* _u, st1 <- block_stmts (exec f) ss (set_venv st (sc :: sc :: rest));
      (* flatten_nested_layer: the copy replaces the scope below *)
      match venv st1 with
      | top :: _ :: rest' => ROk tt (set_venv st1 (top :: rest'))
      | _ => RPanic PanicScope st1
      end
    end
  | SReturn e =>
    match e with
    | None => ROk tt (set_retv st (Some VNull))
    | Some e1 => let* v, st1 <- eval f e1 st; ROk tt (set_retv st1 (Some v))
    end
  | SContinue =>
    match loops st with
    | [] => RPanic PanicLoopStack st
    | (b, _) :: r => ROk tt (set_loops st ((b, true) :: r))
    end
  | SBreak =>
    match loops st with
    | [] => RPanic PanicLoopStack st
    | (_, c) :: r => ROk tt (set_loops st ((true, c) :: r))
    end
  | SImport modname mtok only =>
    let* table, st1 <-
      (if existsb (fun m => text_eqb (string_bytes m) modname) module_registry then
         ROk (match find (fun m => text_eqb (string_bytes m) modname) module_registry with
              | Some m => module_table m | None => [] end) st
       else
         (* a user module, resolved relative to the importing file *)
         let p := path_join (path st) modname in
         if negb (has_ap_extension p) then RErr ModuleNotFound mtok st
         else match find (fun e => text_eqb (fst e) p) (o_files (orc st)) with
              | None => RErr ModuleFileMissing mtok st
              | Some (_, src) =>
                match lex src with
                | LexOk ts =>
                  match parse_tokens ts with
                  | ParseOk prog =>
                    (* a new interpreter for the module; output, heap, stdin and the oracles thread through *)
                    let ms := fresh_state (heap st) (out st) (stdin_ st) (orc st) (dirname p) in
                    let* _u, ms1 <- block_top (exec f) prog ms;
                    ROk (exports ms1)
                        (set_orc (set_stdin (set_out (set_heap st (heap ms1)) (out ms1)) (stdin_ ms1)) (orc ms1))
                  | _ => RErr ModuleInvalid mtok st
                  end
                | _ => RErr ModuleInvalid mtok st
                end
              end)
      ;
    match only with
    | None => ROk tt (set_funcs st1 (ft_extend (funcs st1) table))
    | Some names =>
      (* trim the module down to the named procedures; an unknown name is an error *)
      (fix pick (ns : list (text * span)) (tbl acc : ftable) : res unit :=
         match ns with
         | [] => ROk tt (set_funcs st1 (ft_extend (funcs st1) (rev acc)))
         | (n, sp) :: r =>
           match ft_get tbl n with
           | None => RErr InvalidFunction sp st1
           | Some fnv => pick r (ft_remove tbl n) ((n, fnv) :: acc)
           end
         end) names table []
    end
  end end.
