(** Layout: what "the same program laid out differently" means, over the lexical grammar (LexSpec).
    A layout is a list of lexemes, each preceded by a gap of trivia pieces, plus a trailing gap;
    [render] is its text; [layout_ok] says that every piece is trivia where it stands, that every
    lexeme, standing alone, is a token, and that no lexeme fuses with the text that follows it.
    [tok_view] is what the parser may look at: the kind, the literal, and the name of an identifier
    (byte ranges and the spelling of keywords are not part of it).  No proofs here. *)
From Aplang Require Import Base FloatX Token LexSpec.
Open Scope N_scope.

Inductive piece :=
| PBlank (c : N)                (* space, carriage return, tab *)
| PCont                         (* backslash newline *)
| PNewline                      (* a newline where no statement can end *)
| POpenComment (body : text).   (* // body   -- up to, not including, the newline that must follow *)

Definition piece_text (p : piece) : text :=
  match p with
  | PBlank c => [c]
  | PCont => [92; 10]
  | PNewline => [10]
  | POpenComment body => 47 :: 47 :: body
  end.

Definition gap_text (g : list piece) : text := flat_map piece_text g.

Definition not_ender (prev : option tk) : Prop :=
  (match prev with Some k => tk_in k ref_end_set | None => false end) = false.

(** every piece of the gap is trivia where it stands ([following] is the text after the gap) *)
Fixpoint gap_ok (prev : option tk) (g : list piece) (following : text) : Prop :=
  match g with
  | [] => True
  | PBlank c :: r => In c ref_blanks /\ gap_ok prev r following
  | PCont :: r => gap_ok prev r following
  | PNewline :: r => not_ender prev /\ gap_ok prev r following
  | POpenComment body :: r =>
    forallb (fun x => negb (x =? 10)) body = true /\
    starts_with_p (fun x => negb (x =? 10)) (gap_text r ++ following) = false /\
    gap_ok prev r following
  end.

Section Layout.
  Variable is_alnum : N -> bool.

  (** the lexeme [w] does not absorb the beginning of [next] *)
  Definition no_fuse (w next : text) : bool :=
    match w with
    | [60] => negb (starts_with_p (fun x => (x =? 61) || (x =? 45)) next)         (* <  then = or - *)
    | [62] => negb (starts_with_p (fun x => x =? 61) next)                         (* >  then = *)
    | [47] => negb (starts_with_p (fun x => x =? 47) next)                         (* /  then / *)
    | c :: _ =>
      if is_digit c then
        negb (starts_with_p is_digit next) &&
        (existsb (N.eqb 46) w || negb (match next with 46 :: d :: _ => is_digit d | _ => false end))
      else if is_alnum c then negb (starts_with_p (id_char is_alnum) next)
      else true
    | [] => true
    end.

  (** one laid-out lexeme: the gap before it, its text, the token it is when standing alone *)
  Definition litem := (list piece * text * token)%type.
  Definition item_text (i : litem) : text := gap_text (fst (fst i)) ++ snd (fst i).

  Fixpoint render (items : list litem) (trail : list piece) : text :=
    match items with
    | [] => gap_text trail
    | i :: r => item_text i ++ render r trail
    end.

  Fixpoint layout_ok (prev : option tk) (items : list litem) (trail : list piece) : Prop :=
    match items with
    | [] => gap_ok prev trail []
    | (g, w, t) :: r =>
      let after := render r trail in
      gap_ok prev g (w ++ after) /\
      Tok is_alnum prev 0 w [] t /\          (* [w], standing alone after a token of kind [prev], is the token [t] *)
      no_fuse w after = true /\
      layout_ok (Some (tkind t)) r trail
    end.
End Layout.

(** what the parser may look at *)
Definition tok_view (t : token) : tk * literal * text :=
  (tkind t, tlit t, if tk_eqb (tkind t) TIdentifier then tlex t else []).

Definition same_views (ts1 ts2 : list token) : Prop := map tok_view ts1 = map tok_view ts2.
