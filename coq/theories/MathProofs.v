(** MathProofs: the lemmas behind Props/C15 — the MATH table, the integer rounding functions on the
    [spec_float] view, the number printer's interval invariant and layout law, RANDOM's range,
    and the text round-trip spot checks. *)
From Aplang Require Import Base FloatX Token Ast Tables Value StrLib EvalImpl.
From Aplang.Gen Require Import Generated.
From Coq Require Import SpecFloat Zpower Lia.
Open Scope string_scope.

(** ** the MATH table *)
Definition reference_math : list (string * mathfn * list nat) :=
  [("SIN", MFn "sin", [0]); ("COS", MFn "cos", [0]); ("TAN", MFn "tan", [0]); ("ASIN", MFn "asin", [0]);
   ("ACOS", MFn "acos", [0]); ("ATAN", MFn "atan", [0]); ("ATAN2", MFn "atan2", [0; 1]); ("SINH", MFn "sinh", [0]);
   ("COSH", MFn "cosh", [0]); ("TANH", MFn "tanh", [0]); ("ASINH", MFn "asinh", [0]); ("ACOSH", MFn "acosh", [0]);
   ("ATANH", MFn "atanh", [0]); ("EXP", MFn "exp", [0]); ("LOG", MFn "log", [0; 1]); ("LOG10", MFn "log10", [0]);
   ("LOG2", MFn "log2", [0]); ("ROUND", MFn "round", [0]); ("FLOOR", MFn "floor", [0]); ("CEIL", MFn "ceil", [0]);
   ("INT", MFn "trunc", [0]); ("CLAMP", MClamp, [0; 1; 2]); ("PI", MConst "PI", []); ("E", MConst "E", []);
   ("TAU", MConst "TAU", [])]%nat.

Lemma math_bodies_eq : math_bodies = reference_math.
Proof. reflexivity. Qed.

Lemma math_table_is_reference : forall name,
  find (fun e => String.eqb (fst (fst e)) name) math_bodies = find (fun e => String.eqb (fst (fst e)) name) reference_math.
Proof. intros name. rewrite math_bodies_eq. reflexivity. Qed.

(** ** [binary_round _ _ s p 0] is integer valued *)

(** a finite/zero/infinite float whose value is an integer: the exponent is non-negative or the
    mantissa is a multiple of [2 ^ (- e)] *)
Definition sf_integral (x : spec_float) : Prop :=
  match x with
  | S754_finite _ m e => (0 <= e)%Z \/ (Zpos m mod 2 ^ (- e) = 0)%Z
  | S754_zero _ => True
  | S754_infinity _ => True
  | S754_nan => False
  end.

Lemma digits2_pos_shift_pos : forall d p,
  digits2_pos (shift_pos d p) = (digits2_pos p + d)%positive.
Proof.
  intros d p. unfold shift_pos.
  induction d as [|d IHd] using Pos.peano_ind.
  - simpl. lia.
  - rewrite Pos.iter_succ. simpl. rewrite IHd. lia.
Qed.

(** the exponent only grows through [shr] *)
Lemma shr_exp_ge : forall mrs e n, (e <= snd (shr mrs e n))%Z.
Proof.
  intros mrs e n. unfold shr. destruct n as [|q|q]; simpl; lia.
Qed.

Lemma shr_fexp_exp_ge : forall pr em m e l, (e <= snd (shr_fexp pr em m e l))%Z.
Proof. intros pr em m e l. unfold shr_fexp. apply shr_exp_ge. Qed.

(** the mantissa stays non-negative through [shr_1] *)
Lemma shr_1_nonneg : forall mrs, (0 <= shr_m mrs)%Z -> (0 <= shr_m (shr_1 mrs))%Z.
Proof.
  intros [m r s] Hm. simpl in Hm.
  destruct m as [|[q|q|]|q]; simpl; lia.
Qed.

Lemma iter_pos_shr_1_nonneg : forall n mrs,
  (0 <= shr_m mrs)%Z -> (0 <= shr_m (iter_pos shr_1 n mrs))%Z.
Proof.
  induction n as [n IHn|n IHn|]; intros mrs Hm; simpl.
  - apply IHn, IHn, shr_1_nonneg, Hm.
  - apply IHn, IHn, Hm.
  - apply shr_1_nonneg, Hm.
Qed.

Lemma shr_nonneg : forall mrs e n, (0 <= shr_m mrs)%Z -> (0 <= shr_m (fst (shr mrs e n)))%Z.
Proof.
  intros mrs e n Hm. unfold shr. destruct n as [|q|q]; simpl; try exact Hm.
  apply iter_pos_shr_1_nonneg, Hm.
Qed.

Lemma shr_record_of_loc_m : forall m l, shr_m (shr_record_of_loc m l) = m.
Proof. intros m l. destruct l as [|[| |]]; reflexivity. Qed.

Lemma shr_fexp_nonneg : forall pr em m e l, (0 <= m)%Z -> (0 <= shr_m (fst (shr_fexp pr em m e l)))%Z.
Proof.
  intros pr em m e l Hm. unfold shr_fexp. apply shr_nonneg.
  rewrite shr_record_of_loc_m. exact Hm.
Qed.

Lemma round_nearest_even_nonneg : forall m l, (0 <= m)%Z -> (0 <= round_nearest_even m l)%Z.
Proof.
  intros m l Hm. unfold round_nearest_even.
  destruct l as [|[| |]]; try lia. destruct (Z.even m); lia.
Qed.

(** [binary_round_aux] on a non-negative mantissa: never NaN, and the exponent does not decrease *)
Lemma binary_round_aux_exp : forall pr em s m e l, (0 <= m)%Z ->
  match binary_round_aux pr em s m e l with
  | S754_finite _ _ e' => (e <= e')%Z
  | S754_nan => False
  | _ => True
  end.
Proof.
  intros pr em s m e l Hm. unfold binary_round_aux.
  pose proof (shr_fexp_exp_ge pr em m e l) as He1.
  pose proof (shr_fexp_nonneg pr em m e l Hm) as Hm1.
  destruct (shr_fexp pr em m e l) as [mrs1 e1]. simpl in He1, Hm1.
  pose proof (round_nearest_even_nonneg (shr_m mrs1) (loc_of_shr_record mrs1) Hm1) as Hr.
  pose proof (shr_fexp_exp_ge pr em (round_nearest_even (shr_m mrs1) (loc_of_shr_record mrs1)) e1 loc_Exact) as He2.
  pose proof (shr_fexp_nonneg pr em _ e1 loc_Exact Hr) as Hm2.
  destruct (shr_fexp pr em (round_nearest_even (shr_m mrs1) (loc_of_shr_record mrs1)) e1 loc_Exact) as [mrs2 e2].
  simpl in He2, Hm2.
  destruct (shr_m mrs2) as [|q|q].
  - exact I.
  - destruct (Zle_bool e2 (em - pr)); [lia | exact I].
  - lia.
Qed.

(** exact case: the shifted mantissa already has [prec] digits, nothing is rounded *)
Lemma binary_round_aux_exact : forall s mz ez,
  fexp prec emax (Zpos (digits2_pos mz) + ez) = ez ->
  binary_round_aux prec emax s (Zpos mz) ez loc_Exact =
  if Zle_bool ez (emax - prec) then S754_finite s mz ez else S754_infinity s.
Proof.
  intros s mz ez Hf. unfold binary_round_aux.
  assert (Hs : shr_fexp prec emax (Zpos mz) ez loc_Exact =
               ({| shr_m := Zpos mz; shr_r := false; shr_s := false |}, ez)).
  { unfold shr_fexp. cbn [Zdigits2 shr_record_of_loc]. rewrite Hf, Z.sub_diag. reflexivity. }
  rewrite Hs. cbn [shr_m loc_of_shr_record round_nearest_even]. rewrite Hs. reflexivity.
Qed.

Lemma binary_round_integral : forall s p, sf_integral (binary_round prec emax s p 0).
Proof.
  intros s p. unfold binary_round, shl_align.
  destruct (fexp prec emax (Zpos (digits2_pos p) + 0) - 0)%Z as [|d|d] eqn:Hd.
  - pose proof (binary_round_aux_exp prec emax s (Zpos p) 0 loc_Exact ltac:(lia)) as Hb.
    destruct (binary_round_aux prec emax s (Zpos p) 0 loc_Exact) as [s'|s'| |s' m' e']; simpl; auto.
  - pose proof (binary_round_aux_exp prec emax s (Zpos p) 0 loc_Exact ltac:(lia)) as Hb.
    destruct (binary_round_aux prec emax s (Zpos p) 0 loc_Exact) as [s'|s'| |s' m' e']; simpl; auto.
  - rewrite Z.add_0_r, Z.sub_0_r in Hd.
    rewrite Z.add_0_r, Hd.
    rewrite binary_round_aux_exact.
    + destruct (Zle_bool (Zneg d) (emax - prec)); simpl; [|exact I].
      right. rewrite shift_pos_correct, Z.pow_pos_fold.
      change (- Zneg d)%Z with (Zpos d). rewrite Z.mul_comm.
      apply Z.mod_mul. apply Z.pow_nonzero; lia.
    + rewrite digits2_pos_shift_pos.
      unfold fexp in *. unfold emin, prec, emax in *. lia.
Qed.

(** ** FLOOR / CEIL / INT / ROUND *)
Lemma sf_round_int_integral : forall mode s m e, sf_integral (sf_round_int mode (S754_finite s m e)).
Proof.
  intros mode s m e. unfold sf_round_int.
  destruct (0 <=? e)%Z eqn:He.
  - simpl. left. apply Z.leb_le, He.
  - match goal with |- sf_integral (match ?z with _ => _ end) => destruct z as [|q|q] end.
    + exact I.
    + apply binary_round_integral.
    + exact I.
Qed.

Lemma round_int_integral : forall mode x s m e,
  sf x = S754_finite s m e ->
  match sf_round_int mode (sf x) with
  | S754_finite _ m' e' => (0 <= e')%Z \/ (Zpos m' mod 2 ^ (- e') = 0)%Z
  | S754_zero _ => True
  | S754_infinity _ => True
  | S754_nan => False
  end.
Proof.
  intros mode x s m e Hx. rewrite Hx. exact (sf_round_int_integral mode s m e).
Qed.

(** the exponent itself is NOT non-negative in general: floats are kept canonical, so an integer
    below 2^52 carries a negative exponent (FLOOR 1.5 = 1 = 2^52 * 2^-52).  Hence the integrality
    claim above is stated on the value ([2 ^ (- e')] divides the mantissa). *)
Lemma round_int_exponent_can_be_negative :
  sf_round_int RFloor (sf 1.5%float) = S754_finite false 4503599627370496 (-52).
Proof. vm_compute. reflexivity. Qed.

(** for a non-negative exponent the argument is returned unchanged *)
Lemma round_int_large : forall mode s m e, (0 <= e)%Z ->
  sf_round_int mode (S754_finite s m e) = S754_finite s m e.
Proof.
  intros mode s m e He. unfold sf_round_int.
  apply Z.leb_le in He. rewrite He. reflexivity.
Qed.

Lemma round_int_specials : forall mode x,
  match sf x with S754_finite _ _ _ => True | other => sf_round_int mode other = other end.
Proof.
  intros mode x. destruct (sf x) as [s|s| |s m e]; [reflexivity | reflexivity | reflexivity | exact I].
Qed.

(** ** the number printer *)
Lemma show_specials :
  show_sf S754_nan = [78; 97; 78]%N /\
  show_sf (S754_infinity false) = [105; 110; 102]%N /\
  show_sf (S754_infinity true) = [45; 105; 110; 102]%N /\
  show_sf (S754_zero false) = [48]%N /\ show_sf (S754_zero true) = [45; 48]%N.
Proof. repeat split; reflexivity. Qed.

Lemma search_S : forall m e f n k,
  search m e (S f) n k =
  let p := (k - (n - 1))%Z in
  let dl := div_scaled (4 * m) (e - 2) p in
  let dh := (dl + 1)%Z in
  let inl := in_interval m e dl p && (10 ^ (n - 1) <=? dl)%Z in
  let inh := in_interval m e dh p in
  if inl && inh then Some (if upper_closer m e dl dh p then dh else dl, p)
  else if inl then Some (dl, p)
  else if inh then Some (dh, p)
  else search m e f (n + 1)%Z k.
Proof. reflexivity. Qed.

Lemma search_in_interval : forall m e fuel n k d p,
  search m e fuel n k = Some (d, p) -> in_interval m e d p = true.
Proof.
  intros m e fuel. induction fuel as [|f IHf]; intros n k d p Hs.
  - discriminate Hs.
  - rewrite search_S in Hs. cbv zeta in Hs.
    remember (k - (n - 1))%Z as p0 eqn:Hp0.
    remember (div_scaled (4 * m) (e - 2) p0) as dl eqn:Hdl.
    destruct (in_interval m e dl p0) eqn:Hil;
      destruct (10 ^ (n - 1) <=? dl)%Z eqn:Hlow;
      destruct (in_interval m e (dl + 1) p0) eqn:Hih; cbn [andb] in Hs;
      try (apply IHf in Hs; exact Hs).
    + destruct (upper_closer m e dl (dl + 1) p0); inversion Hs; subst; assumption.
    + inversion Hs; subst; assumption.
    + inversion Hs; subst; assumption.
    + inversion Hs; subst; assumption.
    + inversion Hs; subst; assumption.
Qed.

Lemma layout_integer : forall d p, (0 <= p)%Z -> (0 < d)%Z ->
  layout d p = (dec (Z.to_N d) ++ zeros p)%list.
Proof.
  intros d p Hp Hd. unfold layout.
  apply Z.leb_le in Hp. rewrite Hp. reflexivity.
Qed.

(** ** RANDOM *)
Lemma random_in_range : forall lo hi d, (lo <= hi)%Z ->
  (lo <= lo + Z.of_N d mod (hi - lo + 1) <= hi)%Z.
Proof.
  intros lo hi d Hle.
  pose proof (Z.mod_pos_bound (Z.of_N d) (hi - lo + 1) ltac:(lia)) as Hb. lia.
Qed.

Lemma random_reaches_both_ends : forall lo hi, (lo <= hi)%Z ->
  (exists d, lo + Z.of_N d mod (hi - lo + 1) = lo)%Z /\ (exists d, lo + Z.of_N d mod (hi - lo + 1) = hi)%Z.
Proof.
  intros lo hi Hle. split.
  - exists 0%N. change (Z.of_N 0) with 0%Z. rewrite Z.mod_0_l by lia. lia.
  - exists (Z.to_N (hi - lo)). rewrite Z2N.id by lia. rewrite Z.mod_small by lia. lia.
Qed.

(** ** text round trips (model evaluation) *)
Lemma roundtrip_examples :
  map (fun x => match parse_f64 (show_float x) with Some y => PrimFloat.eqb x y | None => false end)
      [0.1; 0.30000000000000004; 1e21; 5e-324; 1.7976931348623157e308; 123456.789; 2.2250738585072014e-308]%float
  = [true; true; true; true; true; true; true].
Proof. vm_compute. reflexivity. Qed.
