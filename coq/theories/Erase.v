(** Erase: forgetting the byte ranges of a syntax tree (groups are kept).  Two trees with the same
    erasure differ only in where their tokens stood in the source.  No proofs here. *)
From Aplang Require Import Base FloatX Token Ast.
Open Scope N_scope.

Definition z0 : span := (0, 0).

Fixpoint erase (e : expr) : expr :=
  match e with
  | EGroup x => EGroup (erase x)
  | EBin o _ l r => EBin o z0 (erase l) (erase r)
  | ELog o _ l r => ELog o z0 (erase l) (erase r)
  | EUn o _ x => EUn o z0 (erase x)
  | ECall name _ _ _ sp args => ECall name z0 z0 z0 (map (fun _ => z0) sp) (map erase args)
  | EAccess _ _ _ b k => EAccess z0 z0 z0 (erase b) (erase k)
  | EList _ _ items => EList z0 z0 (map erase items)
  | EVar name _ => EVar name z0
  | EAssign name _ _ v => EAssign name z0 z0 (erase v)
  | ESet _ _ _ _ b i v => ESet z0 z0 z0 z0 (erase b) (erase i) (erase v)
  | other => other
  end.

Fixpoint erase_stmt (s : stmt) : stmt :=
  match s with
  | SExpr e => SExpr (erase e)
  | SIf c t e => SIf (erase c) (erase_stmt t) (match e with Some el => Some (erase_stmt el) | None => None end)
  | SRepeatTimes _ n body => SRepeatTimes z0 (erase n) (erase_stmt body)
  | SRepeatUntil c body => SRepeatUntil (erase c) (erase_stmt body)
  | SForEach name _ _ l body => SForEach name z0 z0 (erase l) (erase_stmt body)
  | SProc name exported params body => SProc name exported params (erase_stmt body)
  | SBlock ss => SBlock (map erase_stmt ss)
  | SReturn None => SReturn None
  | SReturn (Some e) => SReturn (Some (erase e))
  | SContinue => SContinue
  | SBreak => SBreak
  | SImport m _ only => SImport m z0 (match only with Some l => Some (map (fun p => (fst p, z0)) l) | None => None end)
  end.

Definition erase_prog (p : list stmt) : list stmt := map erase_stmt p.
