(** LabelCompose: from the source text to the construct — the label of a runtime diagnostic is the
    range LabelSpec assigns to a construct of the program, and lies inside the part of the source
    that construct was parsed from. *)
From Aplang Require Import Base FloatX Token Ast Tables Value LexImpl LexSpec LexProofs ParseImpl ParseSpec ParseProofs
  EvalImpl EvalSpec GrammarSpec GrammarProofs LabelSpec LabelProofs SegmentProofs.

Theorem label_at_construct : forall a s ts prog fuel st0 k sp st,
  lex_gen a s = LexOk ts -> parse_tokens ts = ParseOk prog ->
  o_files (orc st0) = [] -> Forall (fun p => match snd p with FNative _ _ _ => True | FUser _ _ => False end) (funcs st0) ->
  run_impl fuel prog st0 = RErr k sp st ->
  exists n seg, sub_prog n prog /\ own_label n k sp /\ node_segment ts n seg /\ within seg sp.
Proof.
  intros a s ts prog fuel st0 k sp st Hl Hp Hf Hn Hr.
  pose proof (lex_output_shaped a s ts Hl) as Hsh.
  pose proof (lex_spans a s ts Hl) as Hsp.
  pose proof (parse_sound ts prog Hsh Hp) as Hd.
  destruct (label_roles ts prog fuel st0 k sp st Hp Hf Hn Hr) as (n & Hsub & Hown).
  destruct (subnode_segment ts prog n Hd Hsub) as (seg & Hseg).
  exists n, seg. repeat split; try assumption.
  - destruct Hseg as [H _]; exact H.
  - destruct Hseg as [_ H]; exact H.
  - eapply own_label_within; eauto.
Qed.
