(** Brackets: the bracket structure of a token sequence — ( ) [ ] { } must nest.  No proofs here. *)
From Aplang Require Import Base FloatX Token.
Open Scope N_scope.

Definition closer_of (k : tk) : option tk :=
  match k with
  | TLeftParen => Some TRightParen | TLeftBracket => Some TRightBracket | TLeftBrace => Some TRightBrace
  | _ => None
  end.
Definition is_closer (k : tk) : bool :=
  match k with TRightParen | TRightBracket | TRightBrace => true | _ => false end.

(** [stack]: the closers still owed, innermost first *)
Fixpoint bal (stack : list tk) (ts : list token) : bool :=
  match ts with
  | [] => match stack with [] => true | _ => false end
  | t :: r =>
    match closer_of (tkind t) with
    | Some c => bal (c :: stack) r
    | None =>
      if is_closer (tkind t) then
        match stack with
        | c :: s => tk_eqb c (tkind t) && bal s r
        | [] => false
        end
      else bal stack r
    end
  end.

Definition balanced (ts : list token) : bool := bal [] ts.
