(** SegmentProofs: C11 (extent).  Purely relational reasoning over GrammarSpec / LabelSpec:
    (1) every sub-node of a derived program has its own derivation over a contiguous part of the
        token sequence ([subnode_segment]);
    (2) the range a node labels an error with lies between the start of the first and the end of
        the last token of the node's segment ([own_label_within]). *)
From Coq Require Import Sorted.
From Aplang Require Import Base FloatX Token Ast Tables Value EvalImpl LexSpec GrammarSpec LabelSpec.
From Aplang.Gen Require Import Generated.
Open Scope N_scope.

Arguments N.add : simpl never.
Arguments N.sub : simpl never.

(** * Part 1: contiguous segments of sub-nodes *)

Definition seg_in (x l : list token) : Prop := exists pre post, l = pre ++ x ++ post.

Lemma seg_in_refl x : seg_in x x.
Proof. exists [], []. simpl. now rewrite app_nil_r. Qed.

Lemma seg_in_trans x y z : seg_in x y -> seg_in y z -> seg_in x z.
Proof.
  intros (a & b & ->) (c & d & ->). exists (c ++ a), (b ++ d).
  rewrite <- !app_assoc. reflexivity.
Qed.

Lemma seg_in_app_l x a b : seg_in x a -> seg_in x (a ++ b).
Proof. intros (p & q & ->). exists p, (q ++ b). rewrite <- !app_assoc. reflexivity. Qed.

Lemma seg_in_app_r x a b : seg_in x b -> seg_in x (a ++ b).
Proof. intros (p & q & ->). exists (a ++ p), q. rewrite <- !app_assoc. reflexivity. Qed.

Lemma seg_in_cons x t l : seg_in x l -> seg_in x (t :: l).
Proof. intro H. apply (seg_in_app_r x [t] l H). Qed.

Ltac seg_solve :=
  solve [ apply seg_in_refl
        | apply seg_in_app_l; seg_solve
        | apply seg_in_cons; seg_solve
        | apply seg_in_app_r; seg_solve ].

Definition nd (n : node) (seg : list token) : Prop :=
  match n with NE e => DExpr seg e | NS s => DStmt seg s end.

Definition has (n : node) (seg : list token) : Prop := exists seg', seg_in seg' seg /\ nd n seg'.

Lemma has_mono n a b : has n a -> seg_in a b -> has n b.
Proof. intros (s & Hs & Hn) Hab. exists s. split; [eapply seg_in_trans; eassumption | exact Hn]. Qed.

Definition any_e (n : node) :=
  fix any (l : list expr) : Prop := match l with [] => False | x :: r => sub_expr n x \/ any r end.
Definition any_s (n : node) :=
  fix any (l : list stmt) : Prop := match l with [] => False | x :: r => sub_stmt n x \/ any r end.

Scheme DExpr_min := Minimality for DExpr Sort Prop
  with DItems_min := Minimality for DItems Sort Prop.
Combined Scheme DExpr_DItems_min from DExpr_min, DItems_min.

Scheme DStmt_min := Minimality for DStmt Sort Prop
  with DStmts_min := Minimality for DStmts Sort Prop.
Combined Scheme DStmt_DStmts_min from DStmt_min, DStmts_min.

Ltac split_sub H k :=
  match type of H with
  | _ \/ _ => let H1 := fresh "Hs" in destruct H as [H1 | H1]; [split_sub H1 k | split_sub H1 k]
  | False => destruct H
  | _ => k H
  end.

Ltac self_case H :=
  match type of H with ?n = _ => subst n end;
  eexists; split; [apply seg_in_refl | simpl; econstructor; solve [eauto]].

Ltac ih_case H :=
  eapply has_mono;
  [ match goal with IH : forall n, _ -> has n _ |- _ => eapply IH; exact H end | seg_solve ].

Lemma sub_expr_has :
  (forall seg e, DExpr seg e -> forall n, sub_expr n e -> has n seg) /\
  (forall segs seps es close, DItems segs seps es close -> forall n, any_e n es -> has n segs).
Proof.
  apply DExpr_DItems_min; intros;
    match goal with H : sub_expr _ _ |- _ => simpl in H | H : any_e _ _ |- _ => simpl in H end;
    match goal with
    | H : sub_expr _ _ |- _ => split_sub H ltac:(fun K => first [ self_case K | ih_case K ])
    | H : any_e _ _ |- _ => split_sub H ltac:(fun K => first [ self_case K | ih_case K ])
    | H : _ \/ _ |- has _ _ => split_sub H ltac:(fun K => first [ self_case K | ih_case K ])
    | H : False |- _ => destruct H
    end.
Qed.

Lemma sub_expr_has_e n e : sub_expr n e -> forall seg, DExpr seg e -> has n seg.
Proof. intros H seg D. exact (proj1 sub_expr_has seg e D n H). Qed.

Ltac expr_case H :=
  eapply has_mono; [ eapply (sub_expr_has_e _ _ H); eassumption | seg_solve ].

Lemma sub_stmt_has :
  (forall seg s, DStmt seg s -> forall n, sub_stmt n s -> has n seg) /\
  (forall segs ss, DStmts segs ss -> forall n, any_s n ss -> has n segs).
Proof.
  apply DStmt_DStmts_min; intros;
    match goal with H : sub_stmt _ _ |- _ => simpl in H | H : any_s _ _ |- _ => simpl in H end;
    match goal with
    | H : sub_stmt _ _ |- _ => split_sub H ltac:(fun K => first [ self_case K | ih_case K | expr_case K ])
    | H : any_s _ _ |- _ => split_sub H ltac:(fun K => first [ self_case K | ih_case K | expr_case K ])
    | H : _ \/ _ |- has _ _ => split_sub H ltac:(fun K => first [ self_case K | ih_case K | expr_case K ])
    | H : False |- _ => destruct H
    end.
Qed.

Lemma in_any_s n s p : In s p -> sub_stmt n s -> any_s n p.
Proof.
  induction p as [|a p IH]; intros Hi Hs; [destruct Hi|].
  change (sub_stmt n a \/ any_s n p).
  destruct Hi as [-> | Hi]; [left; exact Hs | right; exact (IH Hi Hs)].
Qed.

Lemma subnode_segment : forall ts p n, DProg ts p -> sub_prog n p -> exists seg, node_segment ts n seg.
Proof.
  intros ts p n (body & eof & -> & _ & D) (s & Hi & Hs).
  destruct (proj2 sub_stmt_has _ _ D n (in_any_s _ _ _ Hi Hs)) as (seg & Hin & Hn).
  exists seg. split.
  - change (seg_in seg (body ++ [eof])). apply seg_in_app_l. exact Hin.
  - destruct n; exact Hn.
Qed.

(** * Part 2: the labelled range lies inside the segment *)

(** ** no token of a segment is the end-of-input token *)

Notation noeof := (Forall (fun t : token => tkind t <> TEof)).

Lemma assoc_bin_ne t op : assoc_kind (tkind t) binop_of_token = Some op -> tkind t <> TEof.
Proof. intros H E. rewrite E in H. vm_compute in H. discriminate. Qed.

Lemma assoc_un_ne t op : assoc_kind (tkind t) unop_of_token = Some op -> tkind t <> TEof.
Proof. intros H E. rewrite E in H. vm_compute in H. discriminate. Qed.

Lemma log_ne t (op : logop) : (tkind t = TOr /\ op = LOr) \/ (tkind t = TAnd /\ op = LAnd) -> tkind t <> TEof.
Proof. intros [[K _] | [K _]] E; congruence. Qed.

Ltac kind_ne :=
  cbv beta;
  solve [ assumption
        | eapply assoc_bin_ne; eassumption
        | eapply assoc_un_ne; eassumption
        | eapply log_ne; eassumption
        | let E := fresh "E" in intro E; congruence ].

Ltac ne_tac :=
  repeat first
    [ assumption
    | apply Forall_nil
    | apply Forall_cons; [ kind_ne | ]
    | apply Forall_app; split ].

Lemma DExpr_noeof :
  (forall seg e, DExpr seg e -> noeof seg) /\
  (forall segs seps es close, DItems segs seps es close -> noeof segs).
Proof. apply DExpr_DItems_min; intros; ne_tac. Qed.

Lemma idents_noeof_aux ps :
  (forall params, idents ps params -> noeof ps) /\
  (forall t params, idents (t :: ps) params -> noeof (t :: ps)).
Proof.
  induction ps as [|c r [IH1 IH2]].
  - split; [intros; apply Forall_nil|].
    intros t [|n [|n2 ns]] H; simpl in H; try contradiction.
    destruct H as [K _]. ne_tac.
  - split; [intros params H; exact (IH2 c params H)|].
    intros t [|n ns] H; simpl in H; try contradiction.
    destruct H as (K1 & _ & K2 & _ & H). specialize (IH1 _ H). ne_tac.
Qed.

Lemma idents_noeof ps params : idents ps params -> noeof ps.
Proof. apply (proj1 (idents_noeof_aux ps)). Qed.

(* string-literal lists: no Eof, and every stored range is the range of one of the tokens *)
Lemma strings_aux ns :
  (forall names, strings ns names ->
     noeof ns /\ forall sp, In sp (map snd names) -> exists t, In t ns /\ sp = tspan t) /\
  (forall t names, strings (t :: ns) names ->
     noeof (t :: ns) /\ forall sp, In sp (map snd names) -> exists t', In t' (t :: ns) /\ sp = tspan t').
Proof.
  induction ns as [|c r [IH1 IH2]].
  - split; [intros [|n names] H; simpl in H; contradiction|].
    intros t [|n [|n2 names]] H; simpl in H; try contradiction.
    destruct H as (K & _ & E). split; [ne_tac|].
    intros sp [<- | []]. exists t. split; [apply in_eq | exact E].
  - split; [intros names H; exact (IH2 c names H)|].
    intros t [|n names] H; simpl in H; try contradiction.
    destruct H as (K1 & _ & E & K2 & _ & H). destruct (IH1 _ H) as [N1 N2]. split; [ne_tac|].
    intros sp [<- | Hi].
    + exists t. split; [apply in_eq | exact E].
    + destruct (N2 sp Hi) as (t' & Hi' & ->). exists t'. split; [do 2 apply in_cons; exact Hi' | reflexivity].
Qed.

Lemma strings_noeof ns names : strings ns names -> noeof ns.
Proof. intro H. apply (proj1 (strings_aux ns) names H). Qed.

Lemma strings_span ns names sp :
  strings ns names -> In sp (map snd names) -> exists t, In t ns /\ sp = tspan t.
Proof. intro H. apply (proj1 (strings_aux ns) names H). Qed.

Ltac prep_noeof :=
  repeat match goal with
  | H : DExpr _ _ |- _ => apply (proj1 DExpr_noeof) in H
  | H : opt_semi _ |- _ => destruct H as [-> | (? & ? & ->)]
  | H : idents _ _ |- _ => apply idents_noeof in H
  | H : strings _ _ |- _ => apply strings_noeof in H
  | H : (_ = false /\ _ = []) \/ _ |- _ => destruct H as [[_ ->] | [_ (? & ? & ->)]]
  end.

Lemma DStmt_noeof :
  (forall seg s, DStmt seg s -> noeof seg) /\
  (forall segs ss, DStmts segs ss -> noeof segs).
Proof. apply DStmt_DStmts_min; intros; prep_noeof; simpl; ne_tac. Qed.

Lemma nd_noeof n seg : nd n seg -> noeof seg.
Proof. destruct n; simpl; [apply (proj1 DExpr_noeof) | apply (proj1 DStmt_noeof)]. Qed.

(** a segment without Eof that is part of [body ++ [eof]] is part of [body] *)
Lemma seg_in_body seg body eof :
  tkind eof = TEof -> noeof seg -> seg_in seg (body ++ [eof]) -> seg_in seg body.
Proof.
  intros Ke Hn (pre & post & E).
  destruct post as [|p post0] using rev_ind.
  - rewrite app_nil_r in E.
    destruct seg as [|a seg0] using rev_ind.
    + exists [], body. reflexivity.
    + rewrite app_assoc in E. apply app_inj_tail in E. destruct E as [_ <-].
      apply Forall_app in Hn. destruct Hn as [_ Hn]. inversion Hn; subst. contradiction.
  - rewrite !app_assoc in E. apply app_inj_tail in E. destruct E as [E _].
    exists pre, post0. rewrite E, <- app_assoc. reflexivity.
Qed.

(** ** ordering of the tokens of a segment *)

Definition before (a b : token) : Prop := toff a + tlen a <= toff b.
Notation SS := (StronglySorted before).

Lemma increasing_SS body : increasing body -> SS body.
Proof.
  induction body as [|t r IH]; intro H; [constructor|].
  destruct r as [|t2 r'].
  - constructor; constructor.
  - destruct H as [H1 H2]. specialize (IH H2). constructor; [exact IH|].
    inversion IH as [|? ? _ F]; subst.
    constructor; [exact H1|].
    eapply Forall_impl; [|exact F]. unfold before. intros b Hb. lia.
Qed.

Lemma SS_app a b : SS (a ++ b) -> SS a /\ SS b /\ forall x y, In x a -> In y b -> before x y.
Proof.
  induction a as [|t a IH]; simpl; intro H.
  - split; [constructor|]. split; [exact H|]. intros x y [].
  - inversion H as [|? ? H1 F]; subst. destruct (IH H1) as (Sa & Sb & Hab).
    apply Forall_app in F. destruct F as [Fa Fb].
    split; [constructor; assumption|]. split; [exact Sb|].
    intros x y [<- | Hx] Hy.
    + rewrite Forall_forall in Fb. apply Fb, Hy.
    + apply Hab; assumption.
Qed.

Lemma SS_seg_in seg l : seg_in seg l -> SS l -> SS seg.
Proof.
  intros (pre & post & ->) H.
  apply SS_app in H. destruct H as (_ & H & _).
  apply SS_app in H. destruct H as (H & _). exact H.
Qed.

(* a token after [a] in a sorted list starts after [a] ends *)
Lemma SS_before l1 a l2 b : SS (l1 ++ a :: l2) -> In b l2 -> before a b.
Proof.
  intros H Hb. apply SS_app in H. destruct H as (_ & H & _).
  inversion H as [|? ? _ F]; subst. rewrite Forall_forall in F. apply F, Hb.
Qed.

Lemma spans_ok_SS s ts n seg : spans_ok s ts -> node_segment ts n seg -> SS seg.
Proof.
  intros (body & eof & -> & Ke & _ & _ & _ & _ & Hinc) [Hin Hn].
  change (seg_in seg (body ++ [eof])) in Hin.
  assert (Hd : nd n seg) by (destruct n; exact Hn).
  apply (SS_seg_in seg body).
  - eapply seg_in_body; [exact Ke | eapply nd_noeof; exact Hd | exact Hin].
  - apply increasing_SS, Hinc.
Qed.

(** ** [within] from two witnesses *)

Lemma within_of_witness seg sp :
  SS seg ->
  (exists a, In a seg /\ toff a <= fst sp) ->
  (exists b, In b seg /\ fst sp + snd sp <= toff b + tlen b) ->
  within seg sp.
Proof.
  intros HS (a & Ha & La) (b & Hb & Lb).
  destruct seg as [|first rest]; [destruct Ha|].
  destruct (@exists_last _ (first :: rest)) as (pre & last & E); [discriminate|].
  exists first, last, rest, pre. split; [reflexivity|]. split; [exact E|]. split.
  - destruct Ha as [<- | Ha]; [exact La|].
    pose proof (SS_before [] first rest a HS Ha) as B. unfold before in B. lia.
  - rewrite E in HS, Hb. apply in_app_or in Hb. destruct Hb as [Hb | [<- | []]]; [|exact Lb].
    apply SS_app in HS. destruct HS as (_ & _ & HS).
    pose proof (HS b last Hb (in_eq _ _)) as B. unfold before in B. lia.
Qed.

Lemma tok_within seg t : SS seg -> In t seg -> within seg (tspan t).
Proof.
  intros HS Hi. apply within_of_witness; [exact HS | | ]; exists t; (split; [exact Hi|]); simpl; lia.
Qed.

Lemma between_within seg a b :
  SS seg -> In a seg -> In b seg -> before a b -> within seg (span_between (tspan a) (tspan b)).
Proof.
  intros HS Ha Hb B. unfold before in B.
  apply within_of_witness; [exact HS | exists a | exists b]; (split; [assumption|]);
    unfold span_between, tspan; simpl; lia.
Qed.

Lemma gaps_cons2 a b r : gaps (a :: b :: r) = span_between (tspan a) (tspan b) :: gaps (b :: r).
Proof. reflexivity. Qed.

(* every argument range lies between the end of the opening token and the start of the closing one *)
Lemma gaps_bound segs seps es close :
  DItems segs seps es close ->
  forall a0, SS (a0 :: segs ++ [close]) ->
  forall sp, In sp (gaps (a0 :: seps)) ->
    toff a0 + tlen a0 <= fst sp /\ fst sp + snd sp <= toff close.
Proof.
  induction 1 as [close | seg e close D | seg e comma segs seps es close K D DI IH Hne]; intros a0 HS sp Hi.
  - destruct Hi.
  - destruct Hi as [<- | []].
    assert (B : before a0 close) by (apply (SS_before [] a0 (seg ++ [close]) close HS); apply in_or_app; right; apply in_eq).
    unfold before in B. unfold span_between, tspan; simpl. lia.
  - rewrite gaps_cons2 in Hi.
    rewrite <- app_assoc in HS. simpl in HS.
    assert (B1 : before a0 comma)
      by (apply (SS_before [] a0 (seg ++ comma :: segs ++ [close]) comma HS); apply in_or_app; right; apply in_eq).
    assert (B2 : before comma close)
      by (apply (SS_before (a0 :: seg) comma (segs ++ [close]) close HS); apply in_or_app; right; apply in_eq).
    assert (HS' : SS (comma :: segs ++ [close])).
    { change (SS ((a0 :: seg) ++ comma :: segs ++ [close])) in HS. apply SS_app in HS. apply HS. }
    unfold before in B1, B2.
    destruct Hi as [<- | Hi].
    + unfold span_between, tspan; simpl. lia.
    + destruct (IH comma HS' sp Hi) as [L1 L2]. lia.
Qed.

Ltac in_solve :=
  solve [ assumption
        | apply in_eq
        | apply in_cons; in_solve
        | apply in_or_app; left; in_solve
        | apply in_or_app; right; in_solve ].

Lemma own_label_within : forall s ts n seg k sp,
  spans_ok s ts -> node_segment ts n seg -> own_label n k sp -> within seg sp.
Proof.
  intros s ts n seg k sp Hok Hseg Hl.
  pose proof (spans_ok_SS s ts n seg Hok Hseg) as HS.
  destruct Hseg as [_ Hd].
  destruct n as [e | st]; [destruct e | destruct st]; simpl in Hl; try contradiction.
  - (* EBin *) destruct Hl as [_ ->]. inversion Hd; subst. apply tok_within; [exact HS | in_solve].
  - (* EUn *) destruct Hl as [_ ->]. inversion Hd; subst. apply tok_within; [exact HS | in_solve].
  - (* ECall *)
    inversion Hd; subst.
    destruct Hl as [[_ ->] | [[_ ->] | [_ Hi]]].
    + apply tok_within; [exact HS | in_solve].
    + unfold interior. apply between_within; [exact HS | in_solve | in_solve |].
      match goal with |- before ?a ?b => apply (SS_before [_] a _ b HS); in_solve end.
    + inversion HS as [|? ? HS' _]; subst.
      match goal with D : DItems _ _ _ _ |- _ => destruct (gaps_bound _ _ _ _ D _ HS' sp Hi) as [L1 L2] end.
      apply within_of_witness; [exact HS | |].
      * match goal with _ : tkind ?lp = TLeftParen |- _ => exists lp end. split; [in_solve | lia].
      * match goal with _ : tkind ?rp = TRightParen |- _ => exists rp end. split; [in_solve | lia].
  - (* EAccess *)
    inversion Hd; subst.
    destruct Hl as [[_ ->] | [_ ->]].
    + unfold interior. apply between_within; [exact HS | in_solve | in_solve |].
      match goal with |- before ?a ?b => apply (SS_before _ a _ b HS); in_solve end.
    + apply tok_within; [exact HS | in_solve].
  - (* EVar *) destruct Hl as [_ ->]. inversion Hd; subst. apply tok_within; [exact HS | in_solve].
  - (* ESet *)
    inversion Hd; subst.
    destruct Hl as [[_ ->] | [_ ->]].
    + unfold interior. apply between_within; [exact HS | in_solve | in_solve |].
      match goal with |- before ?a ?b => apply (SS_before _ a _ b HS); in_solve end.
    + apply tok_within; [exact HS | in_solve].
  - (* SRepeatTimes *)
    destruct Hl as [_ ->]. inversion Hd; subst.
    match goal with H : last_tok _ _ |- _ => destruct H as [pre0 ->] end.
    apply tok_within; [exact HS | in_solve].
  - (* SForEach *)
    destruct Hl as [_ ->]. inversion Hd; subst.
    match goal with H : last_tok _ _ |- _ => destruct H as [pre0 ->] end.
    apply tok_within; [exact HS | in_solve].
  - (* SImport *)
    destruct Hl as [_ Hl]. inversion Hd; subst.
    + destruct Hl as [-> | []]. apply tok_within; [exact HS | in_solve].
    + destruct Hl as [-> | [<- | []]]; (apply tok_within; [exact HS | in_solve]).
    + destruct Hl as [-> | Hi]; [apply tok_within; [exact HS | in_solve]|].
      match goal with H : strings _ _ |- _ => destruct (strings_span _ _ _ H Hi) as (t & Ht & ->) end.
      apply tok_within; [exact HS | in_solve].
Qed.
