(** Printer: the documented expression grammar as a pretty-printer over token sequences.
    [print req e] writes expression [e] in a position that admits binding level >= [req], with
    parentheses only where the ladder requires them; [print_full] parenthesises every compound
    sub-expression; [expected] / [expected_full] are the trees the parser must return for those
    token sequences (an [EGroup] exactly where a parenthesis was printed).  Trees here carry the
    dummy range (0, 0) everywhere: ranges are the subject of C11, not of C05.  No proofs here. *)
From Aplang Require Import Base FloatX Token Ast.
Open Scope N_scope.

Definition z : span := (0, 0).
Definition tk0 (k : tk) (lexeme : text) (l : literal) : token := mkToken k 0 0 lexeme l.
Definition kw (k : tk) : token := tk0 k [] LNone.

(** binding levels: 0 assignment, 1 OR, 2 AND, 3 == !=, 4 < <= > >=, 5 + -, 6 * / MOD, 7 unary,
    8 postfix indexing, 9 primary *)
Definition binop_level (o : binop) : nat :=
  match o with
  | BEqualEqual | BNotEqual => 3
  | BLess | BLessEqual | BGreater | BGreaterEqual => 4
  | BPlus | BMinus => 5
  | BStar | BSlash | BModulo => 6
  end.
Definition binop_tk (o : binop) : tk :=
  match o with
  | BEqualEqual => TEqualEqual | BNotEqual => TBangEqual | BLess => TLess | BLessEqual => TLessEqual
  | BGreater => TGreater | BGreaterEqual => TGreaterEqual | BPlus => TPlus | BMinus => TMinus
  | BStar => TStar | BSlash => TSlash | BModulo => TMod
  end.
Definition unop_tk (o : unop) : tk := match o with UMinus => TMinus | UNot => TNot end.

Definition level_of (e : expr) : nat :=
  match e with
  | EAssign _ _ _ _ | ESet _ _ _ _ _ _ _ => 0
  | ELog LOr _ _ _ => 1
  | ELog LAnd _ _ _ => 2
  | EBin o _ _ _ => binop_level o
  | EUn _ _ _ => 7
  | EAccess _ _ _ _ _ => 8
  | _ => 9
  end%nat.

Definition lp := kw TLeftParen.
Definition rp := kw TRightParen.

Section Print.
  (* [full]: parenthesise every compound sub-expression *)
  Variable full : bool.

  Definition compound (e : expr) : bool :=
    match e with
    | ENum _ | EStr _ | ETrue | EFalse | ENull | EVar _ _ | EGroup _ => false
    | _ => true
    end.

  Definition needs_paren (req : nat) (e : expr) : bool :=
    (full && compound e) || Nat.ltb (level_of e) req.

  Fixpoint pr (e : expr) : list token :=
    let print (req : nat) (x : expr) : list token :=
        if needs_paren req x then lp :: pr x ++ [rp] else pr x in
    let sep (l : list expr) : list token :=
        (fix go (l : list expr) : list token :=
           match l with
           | [] => []
           | [x] => print 0%nat x
           | x :: r => print 0%nat x ++ kw TComma :: go r
           end) l in
    match e with
    | EGroup x => lp :: print 0%nat x ++ [rp]
    | ENum f => [tk0 TNumber [] (LNum f)]
    | EStr s => [tk0 TStringLiteral [] (LStr s)]
    | ETrue => [kw TTrue] | EFalse => [kw TFalse] | ENull => [kw TNull]
    | EBin o _ l r => print (binop_level o) l ++ kw (binop_tk o) :: print (S (binop_level o)) r
    | ELog LOr _ l r => print 1%nat l ++ kw TOr :: print 2%nat r
    | ELog LAnd _ l r => print 3%nat l ++ kw TAnd :: print 2%nat r      (* the parser right-nests AND chains *)
    | EUn o _ x => kw (unop_tk o) :: print 7%nat x
    | ECall name _ _ _ _ args => tk0 TIdentifier name LNone :: lp :: sep args ++ [rp]
    | EAccess _ _ _ b k =>
      print (match b with EAccess _ _ _ _ _ => 8 | _ => 9 end)%nat b ++ kw TLeftBracket :: print 0%nat k ++ [kw TRightBracket]
    | EList _ _ items => kw TLeftBracket :: sep items ++ [kw TRightBracket]
    | EVar name _ => [tk0 TIdentifier name LNone]
    | EAssign name _ _ v => tk0 TIdentifier name LNone :: kw TArrow :: print 0%nat v
    | ESet _ _ _ _ b i v =>
      print (match b with EAccess _ _ _ _ _ => 8 | _ => 9 end)%nat b ++ kw TLeftBracket :: print 0%nat i
      ++ kw TRightBracket :: kw TArrow :: print 0%nat v
    end.

  Definition print (req : nat) (x : expr) : list token :=
    if needs_paren req x then lp :: pr x ++ [rp] else pr x.

  (** the tree the parser returns for [print req e]: groups where parentheses were printed, the
      dummy range everywhere, one (dummy) argument range per argument *)
  Fixpoint ex (e : expr) : expr :=
    let expd (req : nat) (x : expr) : expr := if needs_paren req x then EGroup (ex x) else ex x in
    match e with
    | EGroup x => EGroup (expd 0%nat x)
    | EBin o _ l r => EBin o z (expd (binop_level o) l) (expd (S (binop_level o)) r)
    | ELog LOr _ l r => ELog LOr z (expd 1%nat l) (expd 2%nat r)
    | ELog LAnd _ l r => ELog LAnd z (expd 3%nat l) (expd 2%nat r)
    | EUn o _ x => EUn o z (expd 7%nat x)
    | ECall name _ _ _ _ args => ECall name z z z (map (fun _ => z) args) (map (expd 0%nat) args)
    | EAccess _ _ _ b k => EAccess z z z (expd (match b with EAccess _ _ _ _ _ => 8 | _ => 9 end)%nat b) (expd 0%nat k)
    | EList _ _ items => EList z z (map (expd 0%nat) items)
    | EVar name _ => EVar name z
    | EAssign name _ _ v => EAssign name z z (expd 0%nat v)
    | ESet _ _ _ _ b i v =>
      ESet z z z z (expd (match b with EAccess _ _ _ _ _ => 8 | _ => 9 end)%nat b) (expd 0%nat i) (expd 0%nat v)
    | other => other
    end.

  Definition expected (req : nat) (x : expr) : expr := if needs_paren req x then EGroup (ex x) else ex x.
End Print.

(** forgetting groups and ranges: what the printer's input looked like *)
Fixpoint strip (e : expr) : expr :=
  match e with
  | EGroup x => strip x
  | EBin o _ l r => EBin o z (strip l) (strip r)
  | ELog o _ l r => ELog o z (strip l) (strip r)
  | EUn o _ x => EUn o z (strip x)
  | ECall name _ _ _ sp args => ECall name z z z (map (fun _ => z) sp) (map strip args)
  | EAccess _ _ _ b k => EAccess z z z (strip b) (strip k)
  | EList _ _ items => EList z z (map strip items)
  | EVar name _ => EVar name z
  | EAssign name _ _ v => EAssign name z z (strip v)
  | ESet _ _ _ _ b i v => ESet z z z z (strip b) (strip i) (strip v)
  | other => other
  end.

(** the expressions the printer is defined for: no groups, at most 255 arguments per call, and the
    base of an assignment through an index is written as an index expression *)
Fixpoint printable (e : expr) : Prop :=
  match e with
  | EGroup _ => False
  | EBin _ _ l r | ELog _ _ l r => printable l /\ printable r
  | EUn _ _ x | EAssign _ _ _ x => printable x
  | ECall _ _ _ _ sp args =>
    length sp = length args /\ (length args <= 255)%nat /\
    (fix all (l : list expr) : Prop := match l with [] => True | x :: r => printable x /\ all r end) args
  | EAccess _ _ _ b k => printable b /\ printable k
  | EList _ _ items => (fix all (l : list expr) : Prop := match l with [] => True | x :: r => printable x /\ all r end) items
  | ESet _ _ _ _ b i v => printable b /\ printable i /\ printable v
  | _ => True
  end.

(** a token that cannot continue an expression of level >= [lvl] (the follow condition) *)
Definition stops (rest : list token) : Prop :=
  match rest with
  | [] => False                                   (* a token sequence always ends with Eof *)
  | t :: _ =>
    In (tkind t) [TEof; TSoftSemi; TRightParen; TRightBracket; TRightBrace; TComma; TTimes; TLeftBrace]
  end.

(** removing the groups only (ranges are kept) *)
Fixpoint ungroup (e : expr) : expr :=
  match e with
  | EGroup x => ungroup x
  | EBin o t l r => EBin o t (ungroup l) (ungroup r)
  | ELog o t l r => ELog o t (ungroup l) (ungroup r)
  | EUn o t x => EUn o t (ungroup x)
  | ECall name t a b sp args => ECall name t a b sp (map ungroup args)
  | EAccess a b c l k => EAccess a b c (ungroup l) (ungroup k)
  | EList a b items => EList a b (map ungroup items)
  | EAssign name t a v => EAssign name t a (ungroup v)
  | ESet a b c d l i v => ESet a b c d (ungroup l) (ungroup i) (ungroup v)
  | other => other
  end.
