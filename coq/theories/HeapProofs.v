(** HeapProofs: the index arithmetic, the CORE list procedures and the heap of the evaluator model
    (EvalImpl.v / Value.v) as operations on mathematical sequences, with their frame conditions.
    The lemmas here are the ones Props/C04.v closes its theorems with. *)
From Aplang Require Import Base FloatX Token Ast Tables Value EvalImpl.
From Aplang.Gen Require Import Generated.
Open Scope N_scope.

(** ** tactics: evaluate the string tests of [native_body] and nothing else *)
Ltac str_tests :=
  repeat match goal with
         | |- context [str_eq ?a ?b] =>
           let r := eval vm_compute in (str_eq a b) in change (str_eq a b) with r
         end.

(* unfold a library procedure on a concrete name and argument shape; no float primitive is touched *)
Ltac native_step := unfold native_body; str_tests; cbv beta iota zeta.

(** ** index arithmetic *)
Lemma index_below_one : forall idx, PrimFloat.leb 1 idx = false -> index_of idx = usize_max.
Proof. intros idx Hlt. unfold index_of. rewrite Hlt. reflexivity. Qed.

(* every list the machine can hold has at most usize::MAX elements *)
Lemma no_element_at_usize_max : forall A (l : list A),
  (N.of_nat (length l) <= usize_max)%N -> nth_N l usize_max = None.
Proof.
  intros A l Hlen. unfold nth_N.
  destruct (usize_max <? N.of_nat (length l)) eqn:Hlt; [|reflexivity].
  apply N.ltb_lt in Hlt. lia.
Qed.

(* the bound is needed: a Coq [list] can be longer than usize::MAX, and then position usize::MAX exists *)
Lemma nth_N_long_list : forall n : N, nth_N (repeat tt (N.to_nat (n + 1))) n = Some tt.
Proof.
  intro n. unfold nth_N. rewrite repeat_length, N2Nat.id.
  assert (Hlt : n <? n + 1 = true) by (apply N.ltb_lt; lia).
  rewrite Hlt. apply nth_error_repeat. lia.
Qed.

Lemma no_element_at_usize_max_needs_bound : ~ (forall A (l : list A), nth_N l usize_max = None).
Proof.
  intro Hall. pose proof (nth_N_long_list usize_max) as Hsome.
  rewrite Hall in Hsome. discriminate Hsome.
Qed.

Lemma nth_N_spec : forall A (l : list A) k v,
  nth_N l k = Some v <-> (k < N.of_nat (length l))%N /\ nth_error l (N.to_nat k) = Some v.
Proof.
  intros A l k v. unfold nth_N.
  destruct (k <? N.of_nat (length l)) eqn:Hlt.
  - apply N.ltb_lt in Hlt. split.
    + intro Hnth. split; assumption.
    + intros [_ Hnth]. exact Hnth.
  - apply N.ltb_ge in Hlt. split.
    + intro Hnone. discriminate Hnone.
    + intros [Hk _]. lia.
Qed.

(** ** index read *)
Lemma read_list : forall f lt lb rb le ke st a st1 idx st2 l,
  eval f le st = ROk (VList a) st1 -> eval f ke st1 = ROk (VNum idx) st2 -> list_at (heap st2) a = Some l ->
  eval (S f) (EAccess lt lb rb le ke) st =
    match nth_N l (index_of idx) with Some v => ROk v st2 | None => RErr InvalidListIndex (interior lb rb) st2 end.
Proof.
  intros f lt lb rb le ke st a st1 idx st2 l Hle Hke Hcell.
  cbn [eval]. rewrite Hle. cbn [rbind]. rewrite Hke. cbn [rbind]. rewrite Hcell. reflexivity.
Qed.

Lemma read_string : forall f lt lb rb le ke st s st1 idx st2,
  eval f le st = ROk (VStr s) st1 -> eval f ke st1 = ROk (VNum idx) st2 ->
  eval (S f) (EAccess lt lb rb le ke) st =
    match nth_N s (index_of idx) with Some c => ROk (VStr [c]) st2 | None => RErr InvalidListIndex (interior lb rb) st2 end.
Proof.
  intros f lt lb rb le ke st s st1 idx st2 Hle Hke.
  cbn [eval]. rewrite Hle. cbn [rbind]. rewrite Hke. cbn [rbind]. reflexivity.
Qed.

(** ** index write *)
Lemma write_list : forall f lt lb rb arrow le ie ve st a st1 idx st2 v st3 l,
  eval f le st = ROk (VList a) st1 -> eval f ie st1 = ROk (VNum idx) st2 -> eval f ve st2 = ROk v st3 ->
  list_at (heap st3) a = Some l ->
  eval (S f) (ESet lt lb rb arrow le ie ve) st =
    if (index_of idx <? N.of_nat (length l))%N
    then ROk v (heap_set st3 a (CList (update_nth l (N.to_nat (index_of idx)) v)))
    else RErr InvalidListIndex (interior lb rb) st3.
Proof.
  intros f lt lb rb arrow le ie ve st a st1 idx st2 v st3 l Hle Hie Hve Hcell.
  cbn [eval]. rewrite Hle. cbn [rbind]. rewrite Hie. cbn [rbind]. rewrite Hve. cbn [rbind].
  rewrite Hcell. reflexivity.
Qed.

(** ** frame of a cell replacement *)
Lemma heap_set_frame : forall st a c,
  (forall a', a' <> a -> heap_get (heap (heap_set st a c)) a' = heap_get (heap st) a') /\
  venv (heap_set st a c) = venv st /\ out (heap_set st a c) = out st /\ length (heap (heap_set st a c)) = length (heap st).
Proof.
  intros st a c.
  assert (Hheap : heap (heap_set st a c) = update_nth (heap st) a c) by reflexivity.
  split; [|split; [|split]].
  - intros a' Hne. rewrite Hheap. unfold heap_get.
    apply nth_error_update_nth_neq. intro Heq. apply Hne. symmetry. exact Heq.
  - reflexivity.
  - reflexivity.
  - rewrite Hheap. apply update_nth_length.
Qed.

(** ** APPEND, INSERT, REMOVE, LENGTH *)
Lemma append_spec : forall spans st a l v, list_at (heap st) a = Some l ->
  native_body "CORE" "APPEND" [VList a; v] spans st = ROk VNull (heap_set st a (CList (l ++ [v]))).
Proof.
  intros spans st a l v Hcell. native_step. rewrite Hcell. reflexivity.
Qed.

Lemma insert_spec : forall spans st a l i v, list_at (heap st) a = Some l ->
  native_body "CORE" "INSERT" [VList a; VNum i; v] spans st =
    if PrimFloat.leb 1 i && (to_usize i <=? N.of_nat (length l) + 1)%N
    then ROk VNull (heap_set st a (CList (firstn (N.to_nat (to_usize i - 1)) l ++ v :: skipn (N.to_nat (to_usize i - 1)) l)))
    else RErr InvalidListIndex (nth_span spans 1) st.
Proof.
  intros spans st a l i v Hcell. native_step. rewrite Hcell. reflexivity.
Qed.

Lemma remove_spec : forall spans st a l i, list_at (heap st) a = Some l ->
  native_body "CORE" "REMOVE" [VList a; VNum i] spans st =
    if PrimFloat.leb 1 i && (to_usize i <=? N.of_nat (length l))%N
    then match nth_error l (N.to_nat (to_usize i - 1)) with
         | Some x => ROk x (heap_set st a (CList (firstn (N.to_nat (to_usize i - 1)) l ++ skipn (S (N.to_nat (to_usize i - 1))) l)))
         | None => RPanic PanicTable st
         end
    else RErr InvalidListIndex (nth_span spans 1) st.
Proof.
  intros spans st a l i Hcell. native_step. rewrite Hcell. reflexivity.
Qed.

Lemma remove_in_range : forall (l : list value) i,
  PrimFloat.leb 1 i = true -> (to_usize i <= N.of_nat (length l))%N -> (1 <= to_usize i)%N ->
  nth_error l (N.to_nat (to_usize i - 1)) <> None.
Proof.
  intros l i _ Hhi Hlo. apply nth_error_Some.
  remember (to_usize i) as k eqn:Hk. clear Hk. lia.
Qed.

Lemma length_list_spec : forall spans st a l, list_at (heap st) a = Some l ->
  native_body "CORE" "LENGTH" [VList a] spans st = ROk (VNum (of_N (N.of_nat (length l)))) st.
Proof.
  intros spans st a l Hcell. native_step. rewrite Hcell. reflexivity.
Qed.

Lemma length_string_spec : forall spans st s,
  native_body "CORE" "LENGTH" [VStr s] spans st = ROk (VNum (of_N (N.of_nat (length s)))) st.
Proof.
  intros spans st s. native_step. reflexivity.
Qed.

(** ** fresh cells *)
(* the arm of Interpreter::binary selected for list + list *)
Lemma binop_arm_list_plus : forall x y,
  find (fun r => matches (ba_l r) (VList x) && matches (ba_r r) (VList y) &&
                 match ba_op r with None => true | Some o => binop_eqb o BPlus end) binop_arms
  = Some (mkBArm PList (Some BPlus) PList AListConcat).
Proof. intros x y. vm_compute. reflexivity. Qed.

Lemma concat_fresh : forall tok x y st lx ly,
  list_at (heap st) x = Some lx -> list_at (heap st) y = Some ly ->
  apply_binop BPlus tok (VList x) (VList y) st =
    ROk (VList (length (heap st))) (set_heap st (heap st ++ [CList (lx ++ ly)])).
Proof.
  intros tok x y st lx ly Hx Hy. unfold apply_binop.
  rewrite binop_arm_list_plus. cbn [ba_act]. rewrite Hx, Hy. reflexivity.
Qed.

Lemma alloc_frame : forall st c a', (a' < length (heap st))%nat ->
  heap_get (heap (snd (alloc st c))) a' = heap_get (heap st) a' /\ fst (alloc st c) = length (heap st).
Proof.
  intros st c a' Hlt. split; [|reflexivity].
  change (heap (snd (alloc st c))) with (heap st ++ [c]).
  unfold heap_get. apply nth_error_app1. exact Hlt.
Qed.

(** ** assignment *)
Lemma scope_get_remove_other : forall (s : scope) x y,
  text_eqb y x = false -> scope_get (scope_remove s x) y = scope_get s y.
Proof.
  intros s x y Hne. induction s as [|[z w] s IH]; [reflexivity|].
  cbn [scope_remove scope_get].
  destruct (text_eqb x z) eqn:Hxz.
  - apply text_eqb_eq in Hxz. subst z. rewrite Hne. exact IH.
  - cbn [scope_get]. rewrite IH. reflexivity.
Qed.

Lemma assign_changes_no_cell : forall f x tok arrow ve st v st1,
  eval f ve st = ROk v st1 -> venv st1 <> [] ->
  exists st2, eval (S f) (EAssign x tok arrow ve) st = ROk v st2 /\
    heap st2 = heap st1 /\ out st2 = out st1 /\
    lookup st2 x = Some (Some v) /\
    forall y, text_eqb y x = false -> lookup st2 y = lookup st1 y.
Proof.
  intros f x tok arrow ve st v st1 Hve Hscope.
  destruct (venv st1) as [|s r] eqn:Hvenv; [congruence|].
  exists (set_venv st1 (scope_set s x v :: r)).
  split; [|split; [|split; [|split]]].
  - cbn [eval]. rewrite Hve. cbn [rbind]. unfold define. rewrite Hvenv. reflexivity.
  - reflexivity.
  - reflexivity.
  - unfold lookup. cbn [venv set_venv]. unfold scope_set. cbn [scope_get].
    rewrite text_eqb_refl. reflexivity.
  - intros y Hne. unfold lookup. cbn [venv set_venv]. rewrite Hvenv.
    unfold scope_set. cbn [scope_get]. rewrite Hne.
    rewrite scope_get_remove_other by exact Hne. reflexivity.
Qed.
