(** NoPanic: no panic site of the evaluator / library model is reachable from a well-formed program
    (the lemmas Props/C10.v closes its theorems with).
    Structure:
    - the predicates of C10 (heap typing [value_ok] / [heap_ok], call nodes [expr_ok] / [stmt_ok]);
    - heaps: cells are only appended or replaced by a cell of the same kind ([hext]), typing is monotone;
    - the library: for each of the entries of [std_sigs] the cast prologue and the dispatch reach a
      non-panic leaf, and the result keeps the heap typed ([native_call_post], [lib_total]);
      [RExit] only comes from a blocked MOVE_FORWARD ([exit_only_from_move]);
    - the reference semantics (EvalSpec) never reaches a panic site under the invariant [SInv]
      (heap typing, typed scopes, typed procedure tables), with "the current scope only gains
      variables" for the FOR EACH variable ([safe_all], by induction on fuel);
    - the implementation model has the same observable outcome as the reference semantics
      (Refine.refine_gen), so it does not panic either ([run_no_panic_gen]);
    - the parser builds one argument range per argument ([parse_prog_ok]). *)
From Aplang Require Import Base FloatX Token Ast Tables Robot RobotProofs Value StrLib LexImpl ParseImpl EvalImpl EvalSpec
                           ParseSpec ParseProofs Refine OpsSpec OpsProofs.
From Aplang.Gen Require Import Generated.
From Coq Require Import Floats SpecFloat Lia.
Open Scope N_scope.


(** * the predicates of Props/C10.v *)

Definition value_ok (h : heap_t) (v : value) : Prop :=
  match v with
  | VList a => exists l, nth_error h a = Some (CList l)
  | VObj a => (exists m, nth_error h a = Some (CMap m)) \/ (exists r, nth_error h a = Some (CRobot r))
  | _ => True
  end.

Definition heap_ok (h : heap_t) : Prop :=
  forall a c, nth_error h a = Some c ->
    match c with
    | CList l => Forall (value_ok h) l
    | CMap m => Forall (fun kv => value_ok h (fst kv) /\ value_ok h (snd kv)) m
    | CRobot r => RobotProofs.Inv r
    end.

Fixpoint expr_ok (e : expr) : Prop :=
  match e with
  | EGroup e1 | EUn _ _ e1 | EAssign _ _ _ e1 => expr_ok e1
  | EBin _ _ l r | ELog _ _ l r | EAccess _ _ _ l r => expr_ok l /\ expr_ok r
  | ESet _ _ _ _ l i v => expr_ok l /\ expr_ok i /\ expr_ok v
  | ECall _ _ _ _ spans args =>
    length spans = length args /\
    (fix all (l : list expr) : Prop := match l with [] => True | x :: r => expr_ok x /\ all r end) args
  | EList _ _ items =>
    (fix all (l : list expr) : Prop := match l with [] => True | x :: r => expr_ok x /\ all r end) items
  | _ => True
  end.

Fixpoint stmt_ok (s : stmt) : Prop :=
  match s with
  | SExpr e => expr_ok e
  | SIf c t e => expr_ok c /\ stmt_ok t /\ match e with Some x => stmt_ok x | None => True end
  | SRepeatTimes _ n b => expr_ok n /\ stmt_ok b
  | SRepeatUntil c b => expr_ok c /\ stmt_ok b
  | SForEach _ _ _ l b => expr_ok l /\ stmt_ok b
  | SProc _ _ _ b => stmt_ok b
  | SBlock ss => (fix all (l : list stmt) : Prop := match l with [] => True | x :: r => stmt_ok x /\ all r end) ss
  | SReturn (Some e) => expr_ok e
  | _ => True
  end.

Definition prog_ok (p : list stmt) : Prop := wf_prog p /\ Forall stmt_ok p.

Definition fn_ok (f : fn) : Prop :=
  match f with
  | FUser params body => wf_stmt true false body /\ (length params <= 255)%nat /\ stmt_ok body
  | FNative m n sig => In (m, n, sig) std_sigs
  end.

Definition start_ok (st : state) : Prop :=
  (exists s, venv st = [s] /\ Forall (fun p => value_ok (heap st) (snd p)) s) /\
  retv st = None /\ loops st = [] /\ heap_ok (heap st) /\
  Forall (fun p => fn_ok (snd p)) (funcs st) /\ Forall (fun p => fn_ok (snd p)) (exports st).

(** * heaps: cells keep their kind; typing is monotone *)

Definition cell_kind (c : cell) : nat := match c with CList _ => 0%nat | CMap _ => 1%nat | CRobot _ => 2%nat end.

Definition cell_ok (h : heap_t) (c : cell) : Prop :=
  match c with
  | CList l => Forall (value_ok h) l
  | CMap m => Forall (fun kv => value_ok h (fst kv) /\ value_ok h (snd kv)) m
  | CRobot r => RobotProofs.Inv r
  end.

Lemma heap_ok_cell h : heap_ok h <-> forall a c, nth_error h a = Some c -> cell_ok h c.
Proof. split; intros H a c Ha; exact (H a c Ha). Qed.

Definition hext (h h' : heap_t) : Prop :=
  forall a c, nth_error h a = Some c -> exists c', nth_error h' a = Some c' /\ cell_kind c' = cell_kind c.

Lemma hext_refl h : hext h h.
Proof. intros a c H. eauto. Qed.

Lemma hext_trans a b c : hext a b -> hext b c -> hext a c.
Proof.
  intros H1 H2 x cx Hx. destruct (H1 _ _ Hx) as (c1 & Hc1 & K1). destruct (H2 _ _ Hc1) as (c2 & Hc2 & K2).
  exists c2. split; [exact Hc2 | congruence].
Qed.

Lemma value_ok_mono h h' v : hext h h' -> value_ok h v -> value_ok h' v.
Proof.
  intros He. destruct v as [| | | |a|a]; cbn; auto.
  - intros [l Hl]. destruct (He _ _ Hl) as (c' & Hc' & K). destruct c'; try discriminate K. eauto.
  - intros [[m Hm]|[r Hr]].
    + destruct (He _ _ Hm) as (c' & Hc' & K). destruct c'; try discriminate K. eauto.
    + destruct (He _ _ Hr) as (c' & Hc' & K). destruct c'; try discriminate K. eauto.
Qed.

Lemma values_ok_mono h h' l : hext h h' -> Forall (value_ok h) l -> Forall (value_ok h') l.
Proof. intros He H. eapply Forall_impl; [|exact H]. intros v. apply value_ok_mono; auto. Qed.

Lemma cell_ok_mono h h' c : hext h h' -> cell_ok h c -> cell_ok h' c.
Proof.
  intros He. destruct c as [l|m|r]; cbn; auto.
  - apply values_ok_mono; auto.
  - intros H. eapply Forall_impl; [|exact H]. intros [k v] [H1 H2]. split; eapply value_ok_mono; eauto.
Qed.

Lemma hext_alloc h c : hext h (h ++ [c]).
Proof.
  intros a c0 Ha. exists c0. split; auto. rewrite nth_error_app1; auto. apply nth_error_Some. congruence.
Qed.

Lemma heap_ok_alloc h c : heap_ok h -> cell_ok h c -> heap_ok (h ++ [c]).
Proof.
  intros Hh Hc. apply heap_ok_cell. intros a c0 Ha.
  destruct (Nat.lt_ge_cases a (length h)) as [Hlt|Hge].
  - rewrite nth_error_app1 in Ha by auto. eapply cell_ok_mono; [apply hext_alloc|]. exact (Hh _ _ Ha).
  - rewrite nth_error_app2 in Ha by auto. destruct (a - length h)%nat as [|k] eqn:Ek; cbn in Ha.
    + inversion Ha; subst c0. eapply cell_ok_mono; [apply hext_alloc|]. exact Hc.
    + destruct k; discriminate.
Qed.

Lemma nth_error_alloc (h : heap_t) c : nth_error (h ++ [c]) (length h) = Some c.
Proof. rewrite nth_error_app2 by lia. rewrite Nat.sub_diag. reflexivity. Qed.

Lemma hext_update h a c c0 : nth_error h a = Some c0 -> cell_kind c = cell_kind c0 -> hext h (update_nth h a c).
Proof.
  intros Ha K x cx Hx. destruct (Nat.eq_dec a x) as [->|Hne].
  - exists c. split; [|congruence]. apply nth_error_update_nth_eq. apply nth_error_Some. congruence.
  - exists cx. split; auto. rewrite nth_error_update_nth_neq; auto.
Qed.

Lemma heap_ok_update h a c c0 : heap_ok h -> nth_error h a = Some c0 -> cell_kind c = cell_kind c0 ->
  cell_ok h c -> heap_ok (update_nth h a c).
Proof.
  intros Hh Ha K Hc. pose proof (hext_update h a c c0 Ha K) as He.
  apply heap_ok_cell. intros x cx Hx. destruct (Nat.eq_dec a x) as [->|Hne].
  - rewrite nth_error_update_nth_eq in Hx by (apply nth_error_Some; congruence).
    inversion Hx; subst cx. eapply cell_ok_mono; eauto.
  - rewrite nth_error_update_nth_neq in Hx by auto. eapply cell_ok_mono; [exact He|]. exact (Hh _ _ Hx).
Qed.

Lemma list_at_some h a l : list_at h a = Some l <-> nth_error h a = Some (CList l).
Proof.
  unfold list_at. destruct (nth_error h a) as [[l'|m|r]|]; split; intros H; try discriminate; inversion H; auto.
Qed.

Lemma list_at_ok h a : value_ok h (VList a) -> exists l, list_at h a = Some l.
Proof. intros [l Hl]. exists l. apply list_at_some. exact Hl. Qed.

Lemma list_at_values h a l : heap_ok h -> list_at h a = Some l -> Forall (value_ok h) l.
Proof. intros Hh Hl. apply list_at_some in Hl. exact (Hh _ _ Hl). Qed.

(** * scopes *)
Lemma scope_get_remove_eq s x : scope_get (scope_remove s x) x = None.
Proof.
  induction s as [|[y v] s IH]; cbn; auto.
  destruct (text_eqb x y) eqn:E; auto. cbn. rewrite E. exact IH.
Qed.

Lemma scope_get_remove_neq s x y : y <> x -> scope_get (scope_remove s x) y = scope_get s y.
Proof.
  intros Hne. induction s as [|[z v] s IH]; cbn; auto.
  destruct (text_eqb x z) eqn:E.
  - apply text_eqb_eq in E. subst z.
    destruct (text_eqb y x) eqn:E2; [apply text_eqb_eq in E2; contradiction|]. exact IH.
  - cbn. destruct (text_eqb y z); auto.
Qed.

Lemma scope_get_set_eq s x v : scope_get (scope_set s x v) x = Some v.
Proof. unfold scope_set. cbn. rewrite text_eqb_refl. reflexivity. Qed.

Lemma scope_get_set_neq s x v y : y <> x -> scope_get (scope_set s x v) y = scope_get s y.
Proof.
  intros Hne. unfold scope_set. cbn.
  destruct (text_eqb y x) eqn:E; [apply text_eqb_eq in E; contradiction|]. apply scope_get_remove_neq; auto.
Qed.

Lemma text_dec (x y : text) : {x = y} + {x <> y}.
Proof. destruct (text_eqb x y) eqn:E; [left; apply text_eqb_eq; auto | right; intros H; apply text_eqb_eq in H; congruence]. Qed.

Definition scope_ok (h : heap_t) (s : scope) : Prop := Forall (fun p => value_ok h (snd p)) s.

Lemma scope_ok_remove h s x : scope_ok h s -> scope_ok h (scope_remove s x).
Proof.
  unfold scope_ok. induction s as [|[y v] s IH]; cbn; intros H; auto.
  inversion H; subst. destruct (text_eqb x y); auto.
Qed.

Lemma scope_ok_set h s x v : scope_ok h s -> value_ok h v -> scope_ok h (scope_set s x v).
Proof. intros H Hv. unfold scope_set. constructor; auto. apply scope_ok_remove; auto. Qed.

Lemma scope_ok_get h s x v : scope_ok h s -> scope_get s x = Some v -> value_ok h v.
Proof.
  unfold scope_ok. induction s as [|[y w] s IH]; cbn; intros H Hg; [discriminate|].
  inversion H; subst. destruct (text_eqb x y); [inversion Hg; subst; auto | auto].
Qed.

Lemma scope_ok_mono h h' s : hext h h' -> scope_ok h s -> scope_ok h' s.
Proof. intros He H. eapply Forall_impl; [|exact H]. intros p. apply value_ok_mono; auto. Qed.

Definition dom_le (s s' : scope) : Prop := forall y, scope_get s y <> None -> scope_get s' y <> None.

Lemma dom_le_refl s : dom_le s s.
Proof. intros y H; exact H. Qed.
Lemma dom_le_trans a b c : dom_le a b -> dom_le b c -> dom_le a c.
Proof. intros H1 H2 y H. auto. Qed.
Lemma dom_le_set s x v : dom_le s (scope_set s x v).
Proof.
  intros y H. destruct (text_dec y x) as [->|Hne]; [rewrite scope_get_set_eq; discriminate|].
  rewrite scope_get_set_neq; auto.
Qed.
Lemma dom_le_remove_set s x v : dom_le (scope_remove s x) (scope_set s x v).
Proof.
  intros y H. destruct (text_dec y x) as [->|Hne]; [rewrite scope_get_set_eq; discriminate|].
  rewrite scope_get_set_neq; auto. rewrite scope_get_remove_neq in H; auto.
Qed.
Lemma dom_le_remove_remove s s' x : dom_le s s' -> dom_le (scope_remove s x) (scope_remove s' x).
Proof.
  intros Hd y H. destruct (text_dec y x) as [->|Hne]; [rewrite scope_get_remove_eq in H; congruence|].
  rewrite scope_get_remove_neq in *; auto.
Qed.
Lemma dom_le_remove_idem s x : dom_le (scope_remove s x) (scope_remove (scope_remove s x) x).
Proof.
  intros y H. destruct (text_dec y x) as [->|Hne]; [rewrite scope_get_remove_eq in H; congruence|].
  rewrite scope_get_remove_neq; auto.
Qed.


(** * the library *)

Definition lib_post (st : state) (r : res value) : Prop :=
  match r with
  | ROk v st' => hext (heap st) (heap st') /\ heap_ok (heap st') /\ value_ok (heap st') v /\
                 venv st' = venv st /\ funcs st' = funcs st /\ exports st' = exports st
  | RPanic _ _ => False
  | _ => True
  end.

Lemma lp_pure st st' v : heap st' = heap st -> venv st' = venv st -> funcs st' = funcs st -> exports st' = exports st ->
  heap_ok (heap st) -> value_ok (heap st) v -> lib_post st (ROk v st').
Proof. intros Hh Hv Hf He Hok Hval. cbn. rewrite Hh. repeat split; auto. apply hext_refl. Qed.

Lemma lp_alloc st c v : heap_ok (heap st) -> cell_ok (heap st) c ->
  (forall h', value_ok (h' ++ [c]) (v (length h'))) ->
  lib_post st (let '(a, st') := alloc st c in ROk (v a) st').
Proof.
  intros Hok Hc Hv. unfold alloc. cbn. repeat split; auto.
  - apply hext_alloc.
  - apply heap_ok_alloc; auto.
Qed.

Lemma lp_new_list st items : heap_ok (heap st) -> Forall (value_ok (heap st)) items -> lib_post st (new_list st items).
Proof.
  intros Hok Hi. unfold new_list. apply (lp_alloc st (CList items) VList); auto.
  intros h'. cbn. exists items. apply nth_error_alloc.
Qed.

Lemma lp_heap_set st a c c0 v : heap_ok (heap st) -> nth_error (heap st) a = Some c0 -> cell_kind c = cell_kind c0 ->
  cell_ok (heap st) c -> value_ok (heap st) v -> lib_post st (ROk v (heap_set st a c)).
Proof.
  intros Hok Ha K Hc Hv. unfold heap_set. cbn.
  pose proof (hext_update _ _ _ _ Ha K) as He. repeat split; auto.
  - eapply heap_ok_update; eauto.
  - eapply value_ok_mono; eauto.
Qed.

Lemma lp_display st v nl : heap_ok (heap st) -> lib_post st (display st v nl).
Proof.
  intros Hok. unfold display. destruct (show_v st v); [|exact I].
  apply lp_pure; auto. exact I.
Qed.

Lemma lp_read_line st0 st (k : text -> value) :
  heap st = heap st0 -> venv st = venv st0 -> funcs st = funcs st0 -> exports st = exports st0 ->
  heap_ok (heap st0) -> (forall l, value_ok (heap st0) (k l)) ->
  lib_post st0 (let '(l, st') := read_line st in ROk (k l) st').
Proof.
  intros H1 H2 H3 H4 Hok Hk. unfold read_line. destruct (take_while _ _) as [line rest]. apply lp_pure; auto.
Qed.

Lemma map_find_ok st m k v : Forall (fun kv => value_ok (heap st) (fst kv) /\ value_ok (heap st) (snd kv)) m ->
  map_find st m k = Some v -> value_ok (heap st) v.
Proof.
  induction m as [|[k' v'] m IH]; cbn [map_find]; intros H Hf; [discriminate|].
  inversion H as [|? ? [_ Hv'] Hm]; subst. destruct (key_eq (key_fuel st) (heap st) k' k); [inversion Hf; subst; auto | auto].
Qed.

Lemma map_put_ok st m k v : Forall (fun kv => value_ok (heap st) (fst kv) /\ value_ok (heap st) (snd kv)) m ->
  value_ok (heap st) k -> value_ok (heap st) v ->
  Forall (fun kv => value_ok (heap st) (fst kv) /\ value_ok (heap st) (snd kv)) (map_put st m k v).
Proof.
  intros H Hk Hv. induction m as [|[k' v'] m IH]; cbn [map_put].
  - constructor; auto.
  - inversion H as [|? ? [Hk' Hv'] Hm]; subst. destruct (key_eq (key_fuel st) (heap st) k' k); constructor; auto.
Qed.

Lemma join_go_post st sep : heap_ok (heap st) -> forall items acc,
  lib_post st
  ((fix go (l0 : list value) (acc0 : list text) {struct l0} : res value :=
     match l0 with
     | [] => ROk (VStr (join_with sep (rev acc0))) st
     | x :: r0 => match show_v st x with Some t => go r0 (t :: acc0) | None => RFuel end
     end) items acc).
Proof.
  intros Hok. induction items as [|x items IH]; intros acc.
  - apply lp_pure; auto. exact I.
  - destruct (show_v st x); [apply IH | exact I].
Qed.

Lemma digits2_pos_lb m : (2 ^ (Zpos (digits2_pos m) - 1) <= Zpos m)%Z.
Proof.
  induction m as [p IH|p IH|]; cbn [digits2_pos].
  - replace (Zpos (Pos.succ (digits2_pos p)) - 1)%Z with (Z.succ (Zpos (digits2_pos p) - 1)) by lia.
    rewrite Z.pow_succ_r by lia. lia.
  - replace (Zpos (Pos.succ (digits2_pos p)) - 1)%Z with (Z.succ (Zpos (digits2_pos p) - 1)) by lia.
    rewrite Z.pow_succ_r by lia. lia.
  - cbn. lia.
Qed.

(* a number that compares >= 1.0 truncates to at least 1 (through the standard library's
   specification of the primitive comparison, as SpecLemmas.count_nonpositive) *)
Lemma leb1_to_usize f : PrimFloat.leb 1 f = true -> (1 <= to_usize f)%N.
Proof.
  intros H. rewrite leb_spec in H. pose proof (Prim2SF_valid f) as Hv.
  unfold to_usize, sf.
  assert (E1 : Prim2SF 1 = S754_finite false 4503599627370496 (-52)) by (vm_compute; reflexivity).
  rewrite E1 in H. clear E1.
  destruct (Prim2SF f) as [s|s| |s m e]; try discriminate H.
  - destruct s; [discriminate H | lia].
  - destruct s; [discriminate H|].
    unfold SFleb, SFcompare in H.
    assert (Hm : (e < 0 -> 2 ^ (- e) <= Zpos m)%Z).
    { intros He. destruct (Z.compare_spec (-52) e) as [Heq|Hlt|Hgt]; try discriminate H.
      - subst e. change (2 ^ (- -52))%Z with 4503599627370496%Z.
        change (Pos.compare_cont Eq 4503599627370496 m) with (Pos.compare 4503599627370496 m) in H.
        destruct (Pos.compare_spec 4503599627370496 m) as [Hq|Hl|Hg]; try discriminate H; clear H Hv; lia.
      - unfold valid_binary, bounded, canonical_mantissa, fexp, emin in Hv.
        apply andb_true_iff in Hv as [Hc _]. apply Zeq_bool_eq in Hc.
        unfold FloatOps.prec, FloatOps.emax in Hc. assert (Hd : Zpos (digits2_pos m) = 53%Z) by lia.
        pose proof (digits2_pos_lb m) as Hlb. rewrite Hd in Hlb.
        assert (2 ^ (- e) <= 2 ^ (53 - 1))%Z by (apply Z.pow_le_mono_r; lia). lia. }
    cbn [sf_trunc_Z].
    set (a := if (0 <=? e)%Z then (Zpos m * 2 ^ e)%Z else (Zpos m / 2 ^ (- e))%Z).
    assert (Ha : (1 <= a)%Z).
    { unfold a. destruct (0 <=? e)%Z eqn:E.
      - apply Z.leb_le in E. assert (0 < 2 ^ e)%Z by (apply Z.pow_pos_nonneg; lia). nia.
      - apply Z.leb_gt in E. specialize (Hm E).
        apply Z.div_le_lower_bound; [apply Z.pow_pos_nonneg; lia | lia]. }
    destruct (a <? 0)%Z eqn:E1; [apply Z.ltb_lt in E1; lia|].
    destruct (18446744073709551615 <? a)%Z; lia.
Qed.

Lemma Forall_firstn {A} (P : A -> Prop) l n : Forall P l -> Forall P (firstn n l).
Proof. intros H. revert n. induction H as [|x l Hx Hl IH]; intros [|n]; cbn; auto. Qed.
Lemma Forall_skipn {A} (P : A -> Prop) l n : Forall P l -> Forall P (skipn n l).
Proof. intros H. revert n. induction H as [|x l Hx Hl IH]; intros [|n]; cbn; auto. Qed.
Lemma Forall_nth_error {A} (P : A -> Prop) l n x : Forall P l -> nth_error l n = Some x -> P x.
Proof. intros H Hn. rewrite Forall_forall in H. apply H. eapply nth_error_In; eauto. Qed.
Lemma Forall_update_nth' {A} (P : A -> Prop) l n x : Forall P l -> P x -> Forall P (update_nth l n x).
Proof.
  intros H Hx. revert n. induction H as [|y l Hy Hl IH]; intros [|n]; cbn; auto.
Qed.

Ltac str_tests :=
  repeat match goal with
         | |- context [str_eq ?a ?b] =>
           let r := eval vm_compute in (str_eq a b) in change (str_eq a b) with r
         end.

Ltac bm :=
  match goal with
  | |- context [match ?x with _ => _ end] => first [is_var x; destruct x | destruct x eqn:?]
  end.

Ltac split_args :=
  repeat match goal with
  | H : Forall _ (_ :: _) |- _ =>
    let H1 := fresh "Hv" in let H2 := fresh "Hvs" in apply Forall_cons_iff in H; destruct H as [H1 H2]
  end.

Ltac rew_known :=
  repeat match goal with
  | H : ?x = Some _ |- context [?x] => rewrite H
  | H : ?x = None |- context [?x] => rewrite H
  end.

Lemma check_args_ok sig : forall args spans st, length args = length sig -> length spans = length args ->
  match check_args sig args spans st with
  | ROk _ st' => st' = st
  | RPanic _ _ => False
  | _ => True
  end.
Proof.
  induction sig as [|k sig IH]; intros args spans st Ha Hs; cbn [check_args]; auto.
  destruct args as [|v args]; [discriminate Ha|]. destruct spans as [|sp spans]; [discriminate Hs|].
  cbn in Ha, Hs. specialize (IH args spans st ltac:(lia) ltac:(lia)).
  destruct k as [| | | | | |o], v; auto; destruct o, (heap_get (heap st) a) as [[| |]|]; auto.
Qed.


Ltac compute_math_find :=
  repeat match goal with
  | |- context [@find ?A ?f math_bodies] =>
    let r := eval vm_compute in (@find A f math_bodies) in change (@find A f math_bodies) with r
  end.

(* normalise what is known about the heap *)
Ltac norm_heap :=
  unfold heap_get in *;
  repeat match goal with
  | H : list_at _ _ = Some _ |- _ => apply list_at_some in H
  end.

Ltac absurd_heap :=
  norm_heap;
  match goal with
  | Hv : value_ok _ (VList ?a), H : list_at _ ?a = None |- _ =>
    destruct (list_at_ok _ _ Hv) as [? ?]; congruence
  | Hv : value_ok _ (VList ?a) |- _ => destruct Hv as [? ?]; congruence
  | Hv : value_ok _ (VObj ?a) |- _ => destruct Hv as [[? ?]|[? ?]]; congruence
  end.


Ltac lib_leaf :=
  repeat (lazymatch goal with
       | |- True => exact I
       | |- lib_post _ (display _ _ _) => apply lp_display; assumption
       | |- lib_post _ (new_list _ _) => apply lp_new_list; [assumption|]
       | |- lib_post _ (let '(_, _) := alloc _ _ in _) => apply lp_alloc; [assumption| |]
       | |- lib_post _ (let '(_, _) := read_line _ in _) =>
         apply lp_read_line; [reflexivity|reflexivity|reflexivity|reflexivity|assumption|intros; exact I]
       | |- lib_post _ ((fix go (l : list value) (acc : list text) {struct l} : res value := _) _ _) =>
         apply join_go_post; assumption
       | |- lib_post _ (RErr _ _ _) => exact I
       | |- lib_post _ RFuel => exact I
       | |- lib_post _ (RExit _) => exact I
       | |- lib_post _ (ROk _ _) => fail
       | |- lib_post _ (RPanic _ _) => fail
       | |- lib_post _ _ => bm
       end).

Ltac lib_case Hla Hls args spans :=
     destruct args as [|?v [|?v [|?v [|?v args]]]]; try discriminate Hla;
     destruct spans as [|?s [|?s [|?s [|?s spans]]]]; try discriminate Hls;
     clear Hla Hls; split_args;
     unfold native_call; cbn [check_args];
     repeat (cbn [rbind lib_post];
             match goal with
             | |- lib_post _ (rbind (match ?x with _ => _ end) _) => first [is_var x; destruct x | destruct x eqn:?]
             end);
     cbn [rbind lib_post]; try exact I;
     str_tests; cbv beta iota; unfold native_body, fs_call, math_call; str_tests; cbn [orb]; cbv beta iota zeta;
     compute_math_find; cbv beta iota zeta; str_tests; cbv beta iota;
     rew_known.


Lemma Forall_map_any {A} h (f : A -> value) l : (forall x, value_ok h (f x)) -> Forall (value_ok h) (map f l).
Proof. intros H. apply Forall_forall. intros v Hv. apply in_map_iff in Hv as [x [<- _]]. apply H. Qed.

Lemma Forall_map_fst h (m : list (value * value)) :
  Forall (fun kv => value_ok h (fst kv) /\ value_ok h (snd kv)) m -> Forall (value_ok h) (map fst m).
Proof. intros H. induction H as [|kv m [H1 H2] Hm IH]; cbn; auto. Qed.
Lemma Forall_map_snd h (m : list (value * value)) :
  Forall (fun kv => value_ok h (fst kv) /\ value_ok h (snd kv)) m -> Forall (value_ok h) (map snd m).
Proof. intros H. induction H as [|kv m [H1 H2] Hm IH]; cbn; auto. Qed.

Lemma remove_index_some {A} (l : list A) f :
  (1 <=? f)%float && (to_usize f <=? N.of_nat (length l)) = true -> nth_error l (N.to_nat (to_usize f - 1)) <> None.
Proof.
  intros H. apply andb_true_iff in H as [H1 H2]. apply leb1_to_usize in H1. apply N.leb_le in H2.
  apply nth_error_Some. lia.
Qed.

Ltac cell_facts :=
  repeat match goal with
  | Hok : heap_ok ?h, H : nth_error ?h ?a = Some ?c |- _ =>
    lazymatch goal with
    | _ : cell_ok h c |- _ => fail
    | _ => pose proof (proj1 (heap_ok_cell h) Hok _ _ H : cell_ok h c)
    end
  end; cbn [cell_ok] in *.

Ltac solve_vals :=
  first
  [ exact I
  | assumption
  | eapply Forall_nth_error; eassumption
  | apply Forall_map_any; intros; exact I
  | apply Forall_map_fst; assumption
  | apply Forall_map_snd; assumption
  | unfold insert_at; apply Forall_app; split; [apply Forall_firstn; assumption | constructor; [assumption | apply Forall_skipn; assumption]]
  | unfold remove_at; apply Forall_app; split; [apply Forall_firstn | apply Forall_skipn]; assumption
  | apply Forall_app; split; [assumption | constructor; [assumption | constructor]]
  | apply map_put_ok; assumption
  | apply Forall_nil
  | eapply move_inv; eassumption
  | apply rotate_inv; assumption
  | eapply parse_grid_inv; eassumption
  | match goal with |- value_ok _ (match map_find ?st ?m ?k with _ => _ end) =>
      let E := fresh "E" in destruct (map_find st m k) eqn:E; [eapply map_find_ok; eassumption | exact I] end
  | match goal with |- value_ok _ (match ?x with _ => _ end) => destruct x; exact I end
  | intros h'; cbn [value_ok]; left; eexists; apply nth_error_alloc
  | intros h'; cbn [value_ok]; right; eexists; apply nth_error_alloc ].

Ltac lib_fin :=
  norm_heap; cell_facts;
  lazymatch goal with
  | |- lib_post _ (ROk _ (heap_set _ _ _)) =>
    eapply lp_heap_set; [assumption | eassumption | reflexivity | cbn [cell_ok]; solve_vals | solve_vals ]
  | |- lib_post _ (RPanic PanicRobotBug _) =>
    match goal with H : move_forward ?r = MovedIntoWall, HI : RobotProofs.Inv ?r |- _ => exact (move_no_bug r HI H) end
  | |- lib_post _ (RPanic PanicTable _) =>
    match goal with H : nth_error ?l _ = None, Hb : _ && _ = true |- _ => exact (remove_index_some l _ Hb H) end
  | |- _ => solve_vals
  end.


Lemma native_call_post : forall m name sig args spans st,
  In (m, name, sig) std_sigs -> length args = length sig -> length spans = length args ->
  heap_ok (heap st) -> Forall (value_ok (heap st)) args ->
  lib_post st (native_call m name sig args spans st).
Proof.
  intros m name sig args spans st Hin Hla Hls Hok Hargs. unfold std_sigs in Hin.
  repeat (destruct Hin as [Heq | Hin];
    [injection Heq as <- <- <-; lib_case Hla Hls args spans; lib_leaf;
     try (apply lp_pure; [reflexivity|reflexivity|reflexivity|reflexivity|assumption|try exact I]) | ]).
  all: try contradiction.
  all: try (exfalso; absurd_heap).
  all: lib_fin.
Qed.

Theorem lib_total : forall m name sig args spans st,
  In (m, name, sig) std_sigs ->
  length args = length sig -> length spans = length args -> heap_ok (heap st) -> Forall (value_ok (heap st)) args ->
  forall site st', native_call m name sig args spans st <> RPanic site st'.
Proof.
  intros m name sig args spans st Hin Hla Hls Hok Hargs site st' E.
  pose proof (native_call_post m name sig args spans st Hin Hla Hls Hok Hargs) as H.
  rewrite E in H. exact H.
Qed.

(** ** the robot ends the program only through a blocked MOVE_FORWARD *)
Lemma check_args_not_exit sig : forall args spans st st', check_args sig args spans st <> RExit st'.
Proof.
  induction sig as [|k sig IH]; intros args spans st st'; cbn [check_args]; [discriminate|].
  destruct args as [|v args]; [discriminate|]. destruct spans as [|sp spans]; [discriminate|].
  specialize (IH args spans st st').
  destruct k as [| | | | | |o], v; auto; try discriminate; destruct o, (heap_get (heap st) a) as [[| |]|]; auto; discriminate.
Qed.

Lemma join_go_not_exit st sep st' : forall items acc,
  (fix go (l0 : list value) (acc0 : list text) {struct l0} : res value :=
     match l0 with
     | [] => ROk (VStr (join_with sep (rev acc0))) st
     | x :: r0 => match show_v st x with Some t => go r0 (t :: acc0) | None => RFuel end
     end) items acc <> RExit st'.
Proof.
  induction items as [|x items IH]; intros acc; [discriminate|].
  destruct (show_v st x); [apply IH | discriminate].
Qed.

Lemma fs_call_not_exit name args st st' : fs_call name args st <> RExit st'.
Proof.
  unfold fs_call, new_list, alloc. repeat bm; discriminate.
Qed.

Lemma native_body_exit m name args spans st st' : native_body m name args spans st = RExit st' ->
  str_eq m "ROBOT" = true /\ (str_eq name "MOVE_FORWARD" || str_eq name "MOVE_FOWARD") = true.
Proof.
  unfold native_body, display, new_list, alloc.
  repeat lazymatch goal with
  | |- (fix go (l : list value) (acc : list text) {struct l} : res value := _) _ _ = _ -> _ =>
    intros H; exfalso; exact (join_go_not_exit _ _ _ _ _ H)
  | |- context [match ?x with _ => _ end] => first [is_var x; destruct x | destruct x eqn:?]
  end; try discriminate.
  all: intros _; auto.
Qed.

Theorem exit_only_from_move : forall m name sig args spans st st',
  native_call m name sig args spans st = RExit st' ->
  m = "ROBOT"%string /\ (name = "MOVE_FORWARD"%string \/ name = "MOVE_FOWARD"%string).
Proof.
  intros m name sig args spans st st'. unfold native_call.
  destruct (check_args sig args spans st) as [u st1|k sp st1|st1|site st1|] eqn:E; cbn [rbind]; try discriminate.
  - destruct (str_eq m "FS"); intros H.
    + exfalso. exact (fs_call_not_exit _ _ _ _ H).
    + apply native_body_exit in H as [H1 H2]. unfold str_eq in *.
      apply String.eqb_eq in H1. apply orb_true_iff in H2. rewrite !String.eqb_eq in H2. auto.
  - intros H. inversion H; subst. exfalso. exact (check_args_not_exit _ _ _ _ _ E).
Qed.


(** * operators *)
Lemma truthy_r_ok v st : exists b, truthy_r v st = ROk b st.
Proof. unfold truthy_r. rewrite truthy_is_reference. eauto. Qed.

Lemma apply_unop_post op tok v st : heap_ok (heap st) -> lib_post st (apply_unop op tok v st).
Proof.
  intros Hok. rewrite unop_is_reference. unfold spec_unop.
  destruct op, v; try exact I; apply lp_pure; auto; exact I.
Qed.

Lemma apply_binop_post op tok a b st : heap_ok (heap st) -> value_ok (heap st) a -> value_ok (heap st) b ->
  lib_post st (apply_binop op tok a b st).
Proof.
  intros Hok Ha Hb. rewrite binop_is_reference. unfold spec_binop, incomparable.
  destruct op; try (apply lp_pure; auto; exact I);
    destruct a as [|x|x|x|x|x]; try exact I; destruct b as [|y|y|y|y|y]; try exact I;
    try (apply lp_pure; auto; exact I);
    try (match goal with |- lib_post _ (if ?c then _ else _) => destruct c end; [exact I | apply lp_pure; auto; exact I]);
    try (match goal with |- lib_post _ (match show_v ?s ?v with _ => _ end) => destruct (show_v s v) end;
         [apply lp_pure; auto; exact I | exact I]).
  destruct (list_at_ok _ _ Ha) as [lx Hx]. destruct (list_at_ok _ _ Hb) as [ly Hy]. rewrite Hx, Hy.
  apply lp_new_list; auto. apply Forall_app. split; eapply list_at_values; eauto.
Qed.

(** * tables of procedures *)
Section Tbl.
  Variable P : fn -> Prop.
  Definition tblP (t : ftable) : Prop := Forall (fun p => P (snd p)) t.

  Lemma ft_get_P t x f : tblP t -> ft_get t x = Some f -> P f.
  Proof.
    unfold tblP. induction t as [|[y g] t IH]; cbn; intros Hw H; [discriminate|].
    inversion Hw; subst. destruct (text_eqb x y); [inversion H; subst; auto | auto].
  Qed.
  Lemma ft_remove_P t x : tblP t -> tblP (ft_remove t x).
  Proof.
    unfold tblP. induction t as [|[y g] t IH]; cbn; intros Hw; auto.
    inversion Hw; subst. destruct (text_eqb x y); [auto | constructor; auto].
  Qed.
  Lemma ft_set_P t x f : tblP t -> P f -> tblP (ft_set t x f).
  Proof. intros Hw Hf. unfold ft_set. constructor; auto. apply ft_remove_P; auto. Qed.
  Lemma ft_extend_P more : forall t, tblP t -> tblP more -> tblP (ft_extend t more).
  Proof.
    unfold ft_extend. induction more as [|[y g] more IH]; cbn; intros t Ht Hm; auto.
    inversion Hm; subst. apply IH; auto. apply ft_set_P; auto.
  Qed.
  Lemma tblP_rev t : tblP t -> tblP (rev t).
  Proof. unfold tblP. intros H. apply Forall_rev. exact H. Qed.
End Tbl.

Lemma module_table_ok m : tblP fn_ok (module_table m).
Proof.
  unfold module_table, tblP. apply Forall_forall. intros x Hx.
  apply in_map_iff in Hx. destruct Hx as [[[a b] c] [<- Hin]]. apply filter_In in Hin as [Hin _]. exact Hin.
Qed.

Lemma initial_funcs_ok : tblP fn_ok initial_funcs.
Proof.
  unfold initial_funcs, tblP. apply Forall_forall. intros x Hx.
  apply in_flat_map in Hx. destruct Hx as [m [_ Hx]].
  pose proof (module_table_ok m) as H. unfold tblP in H. rewrite Forall_forall in H. auto.
Qed.

(* what the evaluator needs of a procedure (the contextual part of [fn_ok] is Refine's business) *)
Definition fn_ok' (f : fn) : Prop :=
  match f with FUser _ body => stmt_ok body | FNative m n sig => In (m, n, sig) std_sigs end.

Lemma fn_ok_weak f : fn_ok f -> fn_ok' f.
Proof. destruct f; cbn; tauto. Qed.

Lemma tbl_weak t : tblP fn_ok t -> tblP fn_ok' t.
Proof. intros H. eapply Forall_impl; [|exact H]. intros p. apply fn_ok_weak. Qed.

(** * the invariant of the reference semantics *)
Record SInv (st : state) : Prop := mkSInv {
  I_heap : heap_ok (heap st);
  I_venv : Forall (scope_ok (heap st)) (venv st);
  I_funcs : tblP fn_ok' (funcs st);
  I_exports : tblP fn_ok' (exports st) }.

Definition spost {A} (s0 : scope) (h0 : heap_t) (Q : A -> state -> Prop) (r : res A) : Prop :=
  match r with
  | ROk x st' => SInv st' /\ hext h0 (heap st') /\ dom_le s0 (cur_scope st') /\ Q x st'
  | RPanic _ _ => False
  | _ => True
  end.

Lemma spost_intro {A} s0 h0 (Q : A -> state -> Prop) x st' :
  SInv st' -> hext h0 (heap st') -> dom_le s0 (cur_scope st') -> Q x st' -> spost s0 h0 Q (ROk x st').
Proof. intros. cbn. tauto. Qed.

Lemma spost_bind {A B} s0 h0 (Q : A -> state -> Prop) (Q' : B -> state -> Prop) m k :
  spost s0 h0 Q m ->
  (forall x st1, SInv st1 -> hext h0 (heap st1) -> dom_le s0 (cur_scope st1) -> Q x st1 -> spost s0 h0 Q' (k x st1)) ->
  spost s0 h0 Q' (rbind m k).
Proof. intros Hm Hk. destruct m; cbn in *; auto. destruct Hm as (H1 & H2 & H3 & H4). auto. Qed.

Lemma spost_weaken {A} s0 h0 s1 h1 (Q : A -> state -> Prop) r :
  hext h0 h1 -> dom_le s0 s1 -> spost s1 h1 Q r -> spost s0 h0 Q r.
Proof.
  intros He Hd. destruct r; cbn; auto. intros (H1 & H2 & H3 & H4).
  split; [auto|split; [eapply hext_trans; eauto | split; [eapply dom_le_trans; eauto | auto]]].
Qed.

Lemma spost_mono {A} s0 h0 (Q Q' : A -> state -> Prop) r :
  (forall x st', SInv st' -> hext h0 (heap st') -> dom_le s0 (cur_scope st') -> Q x st' -> Q' x st') ->
  spost s0 h0 Q r -> spost s0 h0 Q' r.
Proof. intros H. destruct r; cbn; auto. intros (H1 & H2 & H3 & H4). split; [auto|split; [auto|split; auto]]. Qed.

(* sequencing: the continuation is judged from its own starting state *)
Lemma spost_seq {A B} st (Q : A -> state -> Prop) (Q' : B -> state -> Prop) m k :
  spost (cur_scope st) (heap st) Q m ->
  (forall x st1, SInv st1 -> hext (heap st) (heap st1) -> dom_le (cur_scope st) (cur_scope st1) -> Q x st1 ->
     spost (cur_scope st1) (heap st1) Q' (k x st1)) ->
  spost (cur_scope st) (heap st) Q' (rbind m k).
Proof.
  intros Hm Hk. eapply spost_bind; [exact Hm|]. intros x st1 H1 H2 H3 H4.
  eapply spost_weaken; [exact H2 | exact H3 |]. apply Hk; auto.
Qed.

Definition VQ : value -> state -> Prop := fun v st' => value_ok (heap st') v.
Definition sig_ok (sg : signal) (st' : state) : Prop := match sg with Return v => value_ok (heap st') v | _ => True end.

Lemma cur_scope_ok st : SInv st -> scope_ok (heap st) (cur_scope st).
Proof.
  intros [_ Hv _ _]. unfold cur_scope. destruct (venv st); [constructor | inversion Hv; auto].
Qed.

Lemma SInv_with_scope st s : SInv st -> scope_ok (heap st) s -> SInv (with_scope st s).
Proof. intros [H1 H2 H3 H4] Hs. constructor; cbn; auto. Qed.

Lemma scopes_mono h h' v : hext h h' -> Forall (scope_ok h) v -> Forall (scope_ok h') v.
Proof. intros He H. eapply Forall_impl; [|exact H]. intros s. apply scope_ok_mono; auto. Qed.

Lemma SInv_same st st' : SInv st -> hext (heap st) (heap st') -> heap_ok (heap st') ->
  venv st' = venv st -> funcs st' = funcs st -> exports st' = exports st -> SInv st'.
Proof.
  intros [H1 H2 H3 H4] He Hok Hv Hf Hx. constructor; auto.
  - rewrite Hv. eapply scopes_mono; eauto.
  - rewrite Hf; auto.
  - rewrite Hx; auto.
Qed.

Lemma cur_scope_venv st st' : venv st' = venv st -> cur_scope st' = cur_scope st.
Proof. intros H. unfold cur_scope. rewrite H. reflexivity. Qed.

Lemma lib_spost st r : SInv st -> lib_post st r -> spost (cur_scope st) (heap st) VQ r.
Proof.
  intros HI. destruct r; cbn; auto. intros (He & Hok & Hv & Hve & Hf & Hx).
  split; [|split; [auto|split; [|auto]]].
  - eapply SInv_same; eauto.
  - rewrite (cur_scope_venv _ _ Hve). apply dom_le_refl.
Qed.

Lemma spost_ret {A} st (Q : A -> state -> Prop) x : SInv st -> Q x st -> spost (cur_scope st) (heap st) Q (ROk x st).
Proof. intros HI Hq. apply spost_intro; auto using hext_refl, dom_le_refl. Qed.

Lemma SInv_heap_set st a c c0 : SInv st -> nth_error (heap st) a = Some c0 -> cell_kind c = cell_kind c0 ->
  cell_ok (heap st) c -> SInv (heap_set st a c) /\ hext (heap st) (heap (heap_set st a c)).
Proof.
  intros HI Ha K Hc. pose proof (hext_update _ _ _ _ Ha K) as He. split; [|exact He].
  eapply SInv_same; eauto. eapply heap_ok_update; eauto. apply HI.
Qed.

Definition ev_safe (ev : expr -> state -> res value) : Prop :=
  forall e st, expr_ok e -> SInv st -> spost (cur_scope st) (heap st) VQ (ev e st).
Definition ex_safe (ex : stmt -> state -> res signal) : Prop :=
  forall s st, stmt_ok s -> SInv st -> spost (cur_scope st) (heap st) sig_ok (ex s st).

Lemma expr_all_forall l :
  (fix all (l : list expr) : Prop := match l with [] => True | x :: r => expr_ok x /\ all r end) l <-> Forall expr_ok l.
Proof.
  induction l as [|x l IH]; split; intros H; auto.
  - destruct H as [H1 H2]. constructor; auto. apply IH; auto.
  - inversion H; subst. split; auto. apply IH; auto.
Qed.

Lemma stmt_all_forall l :
  (fix all (l : list stmt) : Prop := match l with [] => True | x :: r => stmt_ok x /\ all r end) l <-> Forall stmt_ok l.
Proof.
  induction l as [|x l IH]; split; intros H; auto.
  - destruct H as [H1 H2]. constructor; auto. apply IH; auto.
  - inversion H; subst. split; auto. apply IH; auto.
Qed.

Lemma eval_args_safe ev : ev_safe ev -> forall es st, Forall expr_ok es -> SInv st ->
  spost (cur_scope st) (heap st) (fun vs st' => Forall (value_ok (heap st')) vs /\ length vs = length es) (eval_args ev es st).
Proof.
  intros Hev. induction es as [|e es IH]; intros st Hes HI; cbn [eval_args].
  - apply spost_ret; auto.
  - inversion Hes; subst.
    eapply spost_seq; [apply Hev; auto|]. intros v st1 HI1 He1 Hd1 Hv.
    eapply spost_seq; [apply IH; auto|]. intros vs st2 HI2 He2 Hd2 [Hvs Hl].
    apply spost_ret; auto. split; [constructor; auto; eapply value_ok_mono; eauto | cbn; congruence].
Qed.

Lemma s_block_safe ex : ex_safe ex -> forall ss st, Forall stmt_ok ss -> SInv st ->
  spost (cur_scope st) (heap st) sig_ok (s_block ex ss st).
Proof.
  intros Hex. induction ss as [|s ss IH]; intros st Hss HI; cbn [s_block].
  - apply spost_ret; auto; try exact I.
  - inversion Hss; subst.
    eapply spost_seq; [apply Hex; auto|]. intros sg st1 HI1 He1 Hd1 Hsg.
    destruct sg; try (apply spost_ret; auto). apply IH; auto.
Qed.

Lemma s_top_safe ex : ex_safe ex -> forall ss st, Forall stmt_ok ss -> SInv st ->
  spost (cur_scope st) (heap st) (fun _ _ => True) (s_top ex ss st).
Proof.
  intros Hex. induction ss as [|s ss IH]; intros st Hss HI; cbn [s_top].
  - apply spost_ret; auto.
  - inversion Hss; subst.
    eapply spost_seq; [apply Hex; auto|]. intros sg st1 HI1 He1 Hd1 Hsg. apply IH; auto.
Qed.

Lemma s_times_safe ex body : ex_safe ex -> stmt_ok body -> forall k n st, SInv st ->
  spost (cur_scope st) (heap st) sig_ok (s_times ex k n body st).
Proof.
  intros Hex Hb. induction k as [|k IH]; intros n st HI; cbn [s_times]; [exact I|].
  destruct (n =? 0); [apply spost_ret; auto; try exact I|].
  eapply spost_seq; [apply Hex; auto|]. intros sg st1 HI1 He1 Hd1 Hsg.
  destruct sg; try (apply spost_ret; auto; try exact I); apply IH; auto.
Qed.

Lemma s_until_safe ev ex c body : ev_safe ev -> ex_safe ex -> expr_ok c -> stmt_ok body -> forall k st, SInv st ->
  spost (cur_scope st) (heap st) sig_ok (s_until ev ex k c body st).
Proof.
  intros Hev Hex Hc Hb. induction k as [|k IH]; intros st HI; cbn [s_until]; [exact I|].
  eapply spost_seq; [apply Hev; auto|]. intros v st1 HI1 He1 Hd1 Hv.
  destruct (truthy_r_ok v st1) as [t ->]. cbn [rbind].
  destruct t; [apply spost_ret; auto; try exact I|].
  eapply spost_seq; [apply Hex; auto|]. intros sg st2 HI2 He2 Hd2 Hsg.
  destruct sg; try (apply spost_ret; auto; try exact I); apply IH; auto.
Qed.

Lemma dom_le_remove_of_set s x v s2 : dom_le (scope_set s x v) s2 -> dom_le (scope_remove s x) (scope_remove s2 x).
Proof.
  intros Hd y H. destruct (text_dec y x) as [->|Hne]; [rewrite scope_get_remove_eq in H; congruence|].
  rewrite scope_get_remove_neq in * by auto. apply Hd. rewrite scope_get_set_neq; auto.
Qed.

Lemma s_each_safe ex body a x len : ex_safe ex -> stmt_ok body -> forall k i st, SInv st -> value_ok (heap st) (VList a) ->
  spost (scope_remove (cur_scope st) x) (heap st) sig_ok (s_each ex k a x i len body st).
Proof.
  intros Hex Hb. induction k as [|k IH]; intros i st HI Ha; cbn [s_each]; [exact I|].
  assert (Hret : forall sg, sig_ok sg st -> spost (scope_remove (cur_scope st) x) (heap st) sig_ok (ROk sg st)).
  { intros sg Hsg. apply spost_intro; auto using hext_refl.
    intros y Hy. destruct (text_dec y x) as [->|Hne]; [rewrite scope_get_remove_eq in Hy; congruence|].
    rewrite scope_get_remove_neq in Hy; auto. }
  destruct (Nat.leb len i); [apply Hret; exact I|].
  destruct (list_at_ok _ _ Ha) as [l Hl]. rewrite Hl.
  destruct (nth_error l i) as [item|] eqn:En; [|apply Hret; exact I].
  assert (Hitem : value_ok (heap st) item).
  { eapply Forall_nth_error; [|exact En]. eapply list_at_values; eauto. apply HI. }
  pose proof (cur_scope_ok _ HI) as Hcs.
  set (st1 := with_scope st (scope_set (cur_scope st) x item)).
  assert (HI1 : SInv st1) by (apply SInv_with_scope; auto; apply scope_ok_set; auto).
  pose proof (Hex body st1 Hb HI1) as Hp.
  destruct (ex body st1) as [sg st2|? ? ?|?|? ?|]; cbn [rbind]; try exact I; [|exact Hp].
  destruct Hp as (HI2 & He2 & Hd2 & Hsg). cbn [heap st1 with_scope set_venv] in He2.
  change (cur_scope st1) with (scope_set (cur_scope st) x item) in Hd2.
  pose proof (dom_le_remove_of_set _ _ _ _ Hd2) as Hd2'.
  assert (Ha2 : value_ok (heap st2) (VList a)) by (eapply value_ok_mono; eauto).
  assert (Hfin : forall sg', sig_ok sg' st2 -> spost (scope_remove (cur_scope st) x) (heap st) sig_ok (ROk sg' st2)).
  { intros sg' Hsg'. apply spost_intro; auto. eapply dom_le_trans; [apply dom_le_remove_set|exact Hd2]. }
  destruct sg.
  - (* Normal *)
    destruct (scope_get (cur_scope st2) x) as [v|] eqn:Eg.
    2:{ exfalso. apply (Hd2 x); [rewrite scope_get_set_eq; discriminate | exact Eg]. }
    pose proof (cur_scope_ok _ HI2) as Hcs2.
    assert (Hv : value_ok (heap st2) v) by (eapply scope_ok_get; eauto).
    set (st3 := with_scope st2 (scope_remove (cur_scope st2) x)).
    assert (HI3 : SInv st3) by (apply SInv_with_scope; auto; apply scope_ok_remove; auto).
    assert (Hrec : forall st4, SInv st4 -> hext (heap st2) (heap st4) -> cur_scope st4 = scope_remove (cur_scope st2) x ->
              spost (scope_remove (cur_scope st) x) (heap st) sig_ok (s_each ex k a x (S i) len body st4)).
    { intros st4 HI4 He4 Hc4. eapply spost_weaken; [| |apply IH; auto].
      - eapply hext_trans; eauto.
      - rewrite Hc4. eapply dom_le_trans; [exact Hd2'|apply dom_le_remove_idem].
      - eapply value_ok_mono; eauto. }
    destruct (list_at (heap st3) a) as [l'|] eqn:El'; [|apply Hrec; auto using hext_refl].
    destruct (Nat.ltb i (length l')); [|apply Hrec; auto using hext_refl].
    apply list_at_some in El'.
    destruct (SInv_heap_set st3 a (CList (update_nth l' i v)) _ HI3 El' eq_refl) as [HI4 He4].
    { cbn. apply Forall_update_nth'; auto. exact (I_heap _ HI3 _ _ El'). }
    apply Hrec; auto.
  - apply Hfin; exact I.
  - (* Continue *)
    eapply spost_weaken; [exact He2 | exact Hd2' | apply IH; auto].
  - apply Hfin; exact Hsg.
Qed.

Lemma bind_scope_ok h : forall (pvs : list (text * value)) sc, scope_ok h sc -> Forall (value_ok h) (map snd pvs) ->
  scope_ok h (fold_left (fun sc0 (pv : text * value) => scope_set sc0 (fst pv) (snd pv)) pvs sc).
Proof.
  induction pvs as [|[y v] pvs IH]; intros sc Hs Hv; cbn; auto.
  inversion Hv; subst. apply IH; auto. apply scope_ok_set; auto.
Qed.

Lemma combine_snd_ok {A} h (ps : list A) : forall vs, Forall (value_ok h) vs -> Forall (value_ok h) (map snd (combine ps vs)).
Proof.
  induction ps as [|p ps IH]; intros vs Hv; cbn; [constructor|].
  destruct vs as [|v vs]; cbn; [constructor|]. inversion Hv; subst. constructor; auto.
Qed.

(** * expressions, one fuel step *)
Lemma seval_step f : ev_safe (seval f) -> ex_safe (sexec f) -> ev_safe (seval (S f)).
Proof.
  intros Hev Hex e st He HI. destruct e; cbn [seval]; cbn [expr_ok] in He.
  - apply Hev; auto.
  - apply spost_ret; auto; try exact I.
  - apply spost_ret; auto; try exact I.
  - apply spost_ret; auto; try exact I.
  - apply spost_ret; auto; try exact I.
  - apply spost_ret; auto; try exact I.
  - (* EBin *)
    destruct He as [Hl Hr].
    eapply spost_seq; [apply Hev; auto|]. intros a st1 HI1 He1 Hd1 Ha.
    eapply spost_seq; [apply Hev; auto|]. intros b st2 HI2 He2 Hd2 Hb.
    apply lib_spost; auto. apply apply_binop_post; auto; [apply HI2 | eapply value_ok_mono; eauto].
  - (* ELog *)
    destruct He as [Hl Hr].
    eapply spost_seq; [apply Hev; auto|]. intros a st1 HI1 He1 Hd1 Ha.
    destruct (truthy_r_ok a st1) as [t ->]. cbn [rbind].
    destruct (match op with LOr => t | LAnd => negb t end); [apply spost_ret; auto | apply Hev; auto].
  - (* EUn *)
    eapply spost_seq; [apply Hev; auto|]. intros a st1 HI1 He1 Hd1 Ha.
    apply lib_spost; auto. apply apply_unop_post. apply HI1.
  - (* ECall *)
    destruct He as [Hsp Hargs]. apply expr_all_forall in Hargs.
    eapply spost_seq; [apply eval_args_safe; auto|]. intros vs st1 HI1 He1 Hd1 [Hvs Hlen].
    destruct (ft_get (funcs st1) name) as [fnv|] eqn:Eg; [|exact I].
    pose proof (ft_get_P _ _ _ _ (I_funcs _ HI1) Eg) as Hfn.
    destruct fnv as [params body|m nm sig]; cbv zeta.
    + destruct (Nat.eqb (length params) (length vs)); cbn [negb]; [|exact I].
      set (callee := fold_left (fun sc (pv : text * value) => scope_set sc (fst pv) (snd pv)) (combine params vs) []).
      assert (Hc : scope_ok (heap st1) callee).
      { apply bind_scope_ok; [constructor | apply combine_snd_ok; auto]. }
      pose proof (Hex body (with_scope st1 callee) Hfn (SInv_with_scope _ _ HI1 Hc)) as Hp.
      destruct (sexec f body (with_scope st1 callee)) as [sg st2|? ? ?|?|? ?|]; cbn [rbind]; try exact I; [|exact Hp].
      destruct Hp as (HI2 & He2 & _ & Hsg). cbn [heap with_scope set_venv] in He2.
      apply spost_intro; [|exact He2| |].
      * destruct HI2 as [G1 G2 G3 G4]. constructor; auto. cbn [venv set_venv heap].
        eapply scopes_mono; [exact He2|]. apply HI1.
      * apply dom_le_refl.
      * unfold VQ. cbn [heap set_venv]. destruct sg; try exact I. exact Hsg.
    + destruct (Nat.eqb (length sig) (length vs)) eqn:En; cbn [negb]; [|exact I].
      apply Nat.eqb_eq in En.
      apply lib_spost; auto. apply native_call_post; auto; [congruence | apply HI1].
  - (* EAccess *)
    destruct He as [Hl Hk].
    eapply spost_seq; [apply Hev; auto|]. intros lv st1 HI1 He1 Hd1 Hlv.
    eapply spost_seq; [apply Hev; auto|]. intros kv st2 HI2 He2 Hd2 Hkv.
    destruct kv; try exact I. destruct lv; try exact I.
    + destruct (nth_N s (index_of f0)); [apply spost_ret; auto; try exact I | exact I].
    + assert (Ha : value_ok (heap st2) (VList a)) by (eapply value_ok_mono; eauto).
      destruct (list_at_ok _ _ Ha) as [l Hl']. rewrite Hl'.
      destruct (nth_N l (index_of f0)) as [v|] eqn:En; [|exact I].
      apply spost_ret; auto. unfold VQ, nth_N in *.
      destruct (index_of f0 <? N.of_nat (length l)); [|discriminate].
      eapply Forall_nth_error; [|exact En]. eapply list_at_values; eauto. apply HI2.
  - (* EList *)
    apply expr_all_forall in He.
    eapply spost_seq; [apply eval_args_safe; auto|]. intros vs st1 HI1 He1 Hd1 [Hvs Hlen].
    apply lib_spost; auto. apply lp_new_list; auto. apply HI1.
  - (* EVar *)
    destruct (scope_get (cur_scope st) name) as [v|] eqn:Eg; [|exact I].
    apply spost_ret; auto. eapply scope_ok_get; [apply cur_scope_ok; auto | exact Eg].
  - (* EAssign *)
    eapply spost_seq; [apply Hev; auto|]. intros v st1 HI1 He1 Hd1 Hv.
    apply spost_intro.
    + apply SInv_with_scope; auto. apply scope_ok_set; auto. apply cur_scope_ok; auto.
    + apply hext_refl.
    + apply dom_le_set.
    + exact Hv.
  - (* ESet *)
    destruct He as (Hl & Hi & Hv).
    eapply spost_seq; [apply Hev; auto|]. intros lv st1 HI1 He1 Hd1 Hlv.
    eapply spost_seq; [apply Hev; auto|]. intros iv st2 HI2 He2 Hd2 Hiv.
    eapply spost_seq; [apply Hev; auto|]. intros v st3 HI3 He3 Hd3 Hvv.
    destruct lv; try exact I. destruct iv; try exact I.
    assert (Ha : value_ok (heap st3) (VList a)).
    { eapply value_ok_mono; [exact He3|]. eapply value_ok_mono; eauto. }
    destruct (list_at_ok _ _ Ha) as [l Hl']. rewrite Hl'. cbv zeta.
    destruct (index_of f0 <? N.of_nat (length l)); [|exact I].
    apply list_at_some in Hl'.
    destruct (SInv_heap_set st3 a (CList (update_nth l (N.to_nat (index_of f0)) v)) _ HI3 Hl' eq_refl) as [HI4 He4].
    { cbn. apply Forall_update_nth'; auto. exact (I_heap _ HI3 _ _ Hl'). }
    apply spost_intro; auto.
    + apply dom_le_refl.
    + unfold VQ. eapply value_ok_mono; eauto.
Qed.


Lemma pick_safe st1 : SInv st1 -> forall names tbl acc, tblP fn_ok' tbl -> tblP fn_ok' acc ->
  spost (cur_scope st1) (heap st1) sig_ok
    ((fix pick (ns : list (text * Ast.span)) (tbl acc : ftable) {struct ns} : res signal :=
         match ns with
         | [] => ROk Normal (set_funcs st1 (ft_extend (funcs st1) (rev acc)))
         | (n, sp) :: r =>
           match ft_get tbl n with
           | None => RErr InvalidFunction sp st1
           | Some fnv => pick r (ft_remove tbl n) ((n, fnv) :: acc)
           end
         end) names tbl acc).
Proof.
  intros HI. induction names as [|[n sp] names IH]; intros tbl acc Ht Ha.
  - apply spost_intro; [|apply hext_refl|apply dom_le_refl|exact I].
    destruct HI as [G1 G2 G3 G4]. constructor; auto. cbn [funcs set_funcs].
    apply ft_extend_P; auto. apply tblP_rev; auto.
  - cbn beta iota. destruct (ft_get tbl n) as [fnv|] eqn:Eg; [|exact I].
    apply IH; [apply ft_remove_P; auto|]. constructor; [|exact Ha]. exact (ft_get_P fn_ok' _ _ _ Ht Eg).
Qed.

Section Main.
Hypothesis Hparse : forall ts p, parse_tokens ts = ParseOk p -> Forall stmt_ok p.

Lemma sexec_step f : ev_safe (seval f) -> ex_safe (sexec f) -> ex_safe (sexec (S f)).
Proof.
  intros Hev Hex s st Hs HI.
  destruct s as [e|c t e|ctok n body|c body|x itok ltok le body|name exported params body|ss0|e| | |modname mtok only];
    cbn [sexec]; cbn [stmt_ok] in Hs.
  - (* SExpr *)
    eapply spost_seq; [apply Hev; auto|]. intros v st1 HI1 _ _ _. apply spost_ret; auto; exact I.
  - (* SIf *)
    destruct Hs as (Hc & Ht & He).
    eapply spost_seq; [apply Hev; auto|]. intros v st1 HI1 He1 Hd1 Hv.
    destruct (truthy_r_ok v st1) as [b ->]. cbn [rbind].
    destruct b; [apply Hex; auto|]. destruct e; [apply Hex; auto | apply spost_ret; auto; exact I].
  - (* SRepeatTimes *)
    destruct Hs as [Hn Hb].
    eapply spost_seq; [apply Hev; auto|]. intros v st1 HI1 He1 Hd1 Hv.
    destruct v; try exact I. apply s_times_safe; auto.
  - (* SRepeatUntil *)
    destruct Hs. apply s_until_safe; auto.
  - (* SForEach *)
    destruct Hs as [Hl Hb].
    eapply spost_seq; [apply Hev; auto|]. intros lv st1 HI1 He1 Hd1 Hlv.
    eapply (spost_seq st1 (fun a st2 => value_ok (heap st2) (VList a))).
    { destruct lv; try exact I.
      - unfold alloc. cbv beta iota zeta.
        apply spost_intro.
        + eapply SInv_same; [exact HI1| | |reflexivity|reflexivity|reflexivity]; cbn [heap set_heap].
          * apply hext_alloc.
          * apply heap_ok_alloc; [apply HI1|]. cbn. apply Forall_map_any. intros; exact I.
        + cbn [heap set_heap]. apply hext_alloc.
        + apply dom_le_refl.
        + cbn [heap set_heap value_ok]. eexists. apply nth_error_alloc.
      - apply spost_ret; auto. }
    intros a st2 HI2 He2 Hd2 Ha. cbv zeta.
    pose proof (cur_scope_ok _ HI2) as Hcs2.
    set (st3 := with_scope st2 (scope_remove (cur_scope st2) x)).
    assert (HI3 : SInv st3) by (apply SInv_with_scope; auto; apply scope_ok_remove; auto).
    pose proof (s_each_safe (sexec f) body a x
                  (match list_at (heap st3) a with Some l => length l | None => 0%nat end)
                  Hex Hb f 0%nat st3 HI3 Ha) as Hp.
    destruct (s_each _ _ _ _ _ _ _ st3) as [sg st4|? ? ?|?|? ?|]; cbn [rbind]; try exact I; [|exact Hp].
    destruct Hp as (HI4 & He4 & Hd4 & Hsg).
    change (cur_scope st3) with (scope_remove (cur_scope st2) x) in Hd4.
    change (heap st3) with (heap st2) in He4.
    pose proof (cur_scope_ok _ HI4) as Hcs4.
    destruct (scope_get (cur_scope st2) x) as [v|] eqn:Eo.
    + apply spost_intro.
      * apply SInv_with_scope; auto. apply scope_ok_set; auto.
        eapply value_ok_mono; [exact He4|]. eapply scope_ok_get; eauto.
      * exact He4.
      * intros y Hy. change (cur_scope (with_scope st4 (scope_set (cur_scope st4) x v))) with (scope_set (cur_scope st4) x v).
        destruct (text_dec y x) as [->|Hne]; [rewrite scope_get_set_eq; discriminate|].
        rewrite scope_get_set_neq by auto. apply Hd4. rewrite !scope_get_remove_neq by auto. exact Hy.
      * exact Hsg.
    + apply spost_intro; auto.
      intros y Hy. destruct (text_dec y x) as [->|Hne]; [congruence|].
      apply Hd4. rewrite !scope_get_remove_neq by auto. exact Hy.
  - (* SProc *)
    destruct HI as [G1 G2 G3 G4].
    destruct exported; (apply spost_intro; [|apply hext_refl|apply dom_le_refl|exact I]);
      constructor; cbn; auto; apply ft_set_P; auto.
  - (* SBlock *)
    apply s_block_safe; auto. apply stmt_all_forall. exact Hs.
  - (* SReturn *)
    destruct e as [e1|].
    + eapply spost_seq; [apply Hev; auto|]. intros v st1 HI1 He1 Hd1 Hv. apply spost_ret; auto.
    + apply spost_ret; auto; exact I.
  - apply spost_ret; auto; exact I.
  - apply spost_ret; auto; exact I.
  - (* SImport *)
    eapply (spost_seq st (fun t _ => tblP fn_ok' t)).
    { destruct (existsb _ module_registry).
      - apply spost_ret; auto.
        destruct (find _ module_registry); [apply tbl_weak, module_table_ok | constructor].
      - cbv zeta. destruct (negb _); [exact I|].
        destruct (find _ (o_files (orc st))) as [[p0 src]|]; [|exact I].
        destruct (lex src) as [ts| |]; try exact I.
        destruct (parse_tokens ts) as [prog| | |] eqn:Ep; try exact I.
        set (ms := fresh_state _ _ _ _ _).
        assert (HIm : SInv ms).
        { constructor; cbn.
          - apply HI.
          - repeat constructor.
          - apply tbl_weak, initial_funcs_ok.
          - constructor. }
        pose proof (s_top_safe _ Hex prog ms (Hparse _ _ Ep) HIm) as Hp.
        destruct (s_top (sexec f) prog ms) as [u ms1|? ? ?|?|? ?|]; cbn [rbind]; try exact I; [|exact Hp].
        destruct Hp as (HIm1 & Hem & _ & _). change (heap ms) with (heap st) in Hem.
        apply spost_intro.
        + destruct HI as [G1 G2 G3 G4]. constructor; cbn; auto.
          * apply HIm1.
          * eapply scopes_mono; eauto.
        + exact Hem.
        + apply dom_le_refl.
        + apply HIm1. }
    intros t st1 HI1 He1 Hd1 Ht.
    destruct only as [names|].
    + apply pick_safe; auto. constructor.
    + apply spost_intro; [|apply hext_refl|apply dom_le_refl|exact I].
      destruct HI1 as [G1 G2 G3 G4]. constructor; auto. cbn [funcs set_funcs]. apply ft_extend_P; auto.
Qed.

Lemma safe_all f : ev_safe (seval f) /\ ex_safe (sexec f).
Proof.
  induction f as [|f [IHe IHx]].
  - split; [intros e st _ _ | intros s st _ _]; exact I.
  - split; [apply seval_step | apply sexec_step]; auto.
Qed.

Lemma run_spec_no_panic fuel prog st0 : Forall stmt_ok prog -> SInv st0 ->
  forall site st, run_spec fuel prog st0 <> RPanic site st.
Proof.
  intros Hp HI site st E. unfold run_spec in E.
  pose proof (s_top_safe _ (proj2 (safe_all fuel)) prog st0 Hp HI) as H. rewrite E in H. exact H.
Qed.
End Main.

Lemma start_clean st : start_ok st -> clean st.
Proof.
  intros ((s & Hs & _) & Hr & Hl & _ & Hf & Hx). unfold clean.
  split; [eauto|]. split; [auto|]. split; [auto|].
  split; (eapply Forall_impl; [|eassumption]); intros [n [ps b|m nm sg]]; cbn; tauto.
Qed.

Lemma start_SInv st : start_ok st -> SInv st.
Proof.
  intros ((s & Hs & Hv) & Hr & Hl & Hh & Hf & Hx). constructor; auto.
  - rewrite Hs. constructor; auto.
  - apply tbl_weak; exact Hf.
  - apply tbl_weak; exact Hx.
Qed.

Theorem run_no_panic_gen :
  (forall ts p, parse_tokens ts = ParseOk p -> prog_ok p) ->
  forall fuel prog st0, prog_ok prog -> start_ok st0 ->
  forall site st, run_impl fuel prog st0 <> RPanic site st.
Proof.
  intros Hparse fuel prog st0 [Hwf Hok] Hst site st E.
  pose proof (refine_gen (fun ts p H => proj1 (Hparse ts p H)) fuel prog st0 Hwf (start_clean _ Hst)) as Hobs.
  rewrite E in Hobs. cbn [observe] in Hobs.
  destruct (run_spec fuel prog st0) as [u s1|k sp s1|s1|site1 s1|] eqn:Es; cbn [observe] in Hobs; try discriminate Hobs.
  exact (run_spec_no_panic (fun ts p H => proj2 (Hparse ts p H)) fuel prog st0 Hok (start_SInv _ Hst) site1 s1 Es).
Qed.

Theorem fresh_state_ok : forall o i orc0 d, start_ok (fresh_state [] o i orc0 d).
Proof.
  intros o i orc0 d. unfold start_ok, fresh_state. cbn.
  split; [exists []; split; [reflexivity | constructor]|].
  split; [reflexivity|]. split; [reflexivity|].
  split; [intros a c H; destruct a; discriminate H|].
  split; [exact initial_funcs_ok | constructor].
Qed.


(** * what the parser builds: every call node carries one argument range per argument *)
Definition pq {A} (Q : A -> Prop) (r : pres A) : Prop :=
  match r with POk x _ => Q x | _ => True end.

Lemma pq_bind {A B} (Q1 : A -> Prop) (Q2 : B -> Prop) (m : pres A) (k : A -> pstate -> pres B) :
  pq Q1 m -> (forall x st1, Q1 x -> pq Q2 (k x st1)) -> pq Q2 (pbind m k).
Proof. intros Hm Hk. destruct m; cbn in *; auto. Qed.

Lemma pq_any {A} (m : pres A) : pq (fun _ => True) m.
Proof. destruct m; exact I. Qed.

Lemma pq_peek {A} (Q : A -> Prop) st (k : token -> pres A) : (forall t, pq Q (k t)) -> pq Q (with_peek st k).
Proof. intros H. unfold with_peek. destruct (rest st); [exact I | apply H]. Qed.

Lemma pq_prev {A} (Q : A -> Prop) st (k : token -> pres A) : (forall t, pq Q (k t)) -> pq Q (with_prev st k).
Proof. intros H. unfold with_prev. destruct (prevt st); [apply H | exact I]. Qed.

Lemma pq_restore {A} (Q : A -> Prop) a b (r : pres A) : pq Q r -> pq Q (restore a b r).
Proof. destruct r; cbn; auto. Qed.

Lemma windows_length : forall (l : list token) (a : token),
  length ((fix windows (l : list token) : list Ast.span :=
             match l with
             | a :: ((b :: _) as r) => span_between (tspan a) (tspan b) :: windows r
             | _ => []
             end) (a :: l)) = length l.
Proof.
  induction l as [|b l IH]; intros a; [reflexivity|].
  cbn [length]. rewrite <- (IH b). reflexivity.
Qed.

Definition items_ok (p : list expr * list token) : Prop := Forall expr_ok (fst p) /\ length (fst p) = length (snd p).

Definition ok_expr (f : nat) : Prop :=
  (forall l st, pq expr_ok (p_level f l st)) /\
  (forall rg e st, expr_ok e -> pq expr_ok (p_loop f rg e st)) /\
  (forall e sp st, expr_ok e -> pq expr_ok (p_access f e sp st)) /\
  (forall lim n st, pq items_ok (p_items f lim n st)) /\
  (forall st, pq expr_ok (p_primary f st)).

Lemma ok_expr_all : forall f, ok_expr f.
Proof.
  induction f as [|f (IHl & IHlo & IHa & IHi & IHp)].
  { repeat split; intros; exact I. }
  assert (Hrung : forall rg st, pq expr_ok (do e, st1 <- p_level f (r_first rg) st; p_loop f rg e st1)).
  { intros rg st. eapply pq_bind; [apply IHl|]. intros e st1 He. apply IHlo; auto. }
  repeat split.
  - (* p_level *)
    intros l st. cbn [p_level]. destruct l.
    + eapply pq_bind; [apply IHl|]. intros e st1 He.
      apply pq_prev. intros et.
      destruct (match_tok TArrow st1) as [[|] st2]; [|exact He].
      apply pq_prev. intros arrow.
      eapply pq_bind; [apply IHl|]. intros v st3 Hv.
      destruct e; try exact I; cbn [pq expr_ok] in *; tauto.
    + destruct (rung_of LvOr); [apply Hrung | exact I].
    + destruct (rung_of LvAnd); [apply Hrung | exact I].
    + destruct (rung_of LvEquality); [apply Hrung | exact I].
    + destruct (rung_of LvComparison); [apply Hrung | exact I].
    + destruct (rung_of LvAddition); [apply Hrung | exact I].
    + destruct (rung_of LvMultiplication); [apply Hrung | exact I].
    + destruct (match_toks unary_ops st) as [[|] st1]; [|apply IHl].
      apply pq_prev. intros tok.
      eapply pq_bind; [apply IHl|]. intros r st2 Hr.
      destruct (assoc_tk (tkind tok) unop_of_token); [exact Hr | exact I].
    + eapply pq_bind; [apply IHl|]. intros e st1 He.
      apply pq_prev. intros et. apply IHa; auto.
    + apply IHp.
  - (* p_loop *)
    intros rg e st He. cbn [p_loop].
    destruct (match_toks (r_ops rg) st) as [[|] st1]; [|exact He].
    apply pq_prev. intros tok.
    eapply pq_bind; [apply IHl|]. intros r st2 Hr.
    destruct (r_mk rg); [apply IHlo; cbn; auto|].
    destruct (assoc_tk (tkind tok) binop_of_token); [apply IHlo; cbn; auto | exact I].
  - (* p_access *)
    intros e sp st He. cbn [p_access].
    destruct (match_tok TLeftBracket st) as [[|] st1]; [|exact He].
    apply pq_prev. intros lb.
    eapply pq_bind; [apply IHl|]. intros idx st2 Hidx.
    eapply pq_bind; [apply pq_any|]. intros rb st3 _.
    apply IHa. cbn; auto.
  - (* p_items *)
    intros lim n st. cbn [p_items].
    destruct (match lim with Some m => m <=? n | None => false end); [exact I|].
    eapply pq_bind; [apply IHl|]. intros e st1 He.
    apply pq_peek. intros after.
    destruct (match_tok TComma st1) as [[|] st2].
    + eapply pq_bind; [apply IHi|]. intros more st3 [Hm Hlen].
      cbn [pq]. split; cbn [fst snd length]; [constructor; auto | congruence].
    + cbn [pq]. split; cbn; auto.
  - (* p_primary *)
    intros st. cbn [p_primary]. apply pq_peek. intros t.
    destruct (at_end st); [exact I|].
    destruct (tkind t); try exact I.
    + (* ( *)
      eapply pq_bind; [apply IHl|]. intros e st2 He.
      eapply pq_bind; [apply pq_any|]. intros rp st3 _. exact He.
    + (* [ *)
      eapply (pq_bind items_ok).
      { destruct (check TRightBracket (advance st)); [split; [constructor | reflexivity] | apply IHi]. }
      intros items st2 [Hi _].
      eapply pq_bind; [apply pq_any|]. intros rb st3 _.
      cbn [pq expr_ok]. apply expr_all_forall. exact Hi.
    + (* identifier *)
      destruct (match_tok TLeftParen (advance st)) as [[|] st2]; [|exact I].
      apply pq_prev. intros lp.
      eapply (pq_bind items_ok).
      { destruct (check TRightParen st2); [split; [constructor | reflexivity] | apply IHi]. }
      intros items st3 [Hi Hlen].
      eapply pq_bind; [apply pq_any|]. intros rp st4 _.
      cbn [pq expr_ok]. split; [|apply expr_all_forall; exact Hi].
      rewrite windows_length. auto.
    + destruct (tlit t); exact I.
    + destruct (tlit t); exact I.
Qed.

Lemma expression_ok f st : pq expr_ok (p_expression f st).
Proof. apply ok_expr_all. Qed.

Definition ok_stmt (f : nat) : Prop :=
  (forall st, pq stmt_ok (p_declaration f st)) /\
  (forall st, pq stmt_ok (p_procedure f st)) /\
  (forall st, pq stmt_ok (p_statement f st)) /\
  (forall st, pq stmt_ok (p_expr_stmt f st)) /\
  (forall lb acc st, Forall stmt_ok acc -> pq stmt_ok (p_block f lb acc st)) /\
  (forall t st, pq stmt_ok (p_if f t st)) /\
  (forall st, pq stmt_ok (p_repeat_times f st)) /\
  (forall st, pq stmt_ok (p_repeat_until f st)) /\
  (forall st, pq stmt_ok (p_for_each f st)) /\
  (forall st, pq stmt_ok (p_import f st)).

Lemma ok_stmt_all : forall f, ok_stmt f.
Proof.
  induction f as [|f (IHd & IHpr & IHs & IHes & IHb & IHif & IHrt & IHru & IHfe & IHim)].
  { repeat split; intros; exact I. }
  repeat split.
  - (* p_declaration *)
    intros st. cbn [p_declaration].
    destruct (match_toks [TExport; TProcedure] st) as [[|] st1]; [apply IHpr | apply IHs].
  - (* p_procedure *)
    intros st. cbn [p_procedure]. apply pq_prev. intros eop.
    eapply pq_bind; [apply pq_any|]. intros [proc_token exported] st1 _.
    eapply pq_bind; [apply pq_any|]. intros name st2 _.
    eapply pq_bind; [apply pq_any|]. intros _lp st3 _.
    eapply pq_bind; [apply pq_any|]. intros params st4 _.
    eapply pq_bind; [apply pq_any|]. intros _rp st5 _.
    eapply pq_bind; [apply pq_restore; apply IHs|]. intros body st6 Hb. exact Hb.
  - (* p_statement *)
    intros st. cbn [p_statement]. apply pq_peek. intros t.
    destruct (at_end st); [apply IHes|].
    destruct (tkind t); try apply IHes.
    + apply IHb. constructor.
    + apply IHif.
    + apply pq_restore. destruct (check TUntil _); [apply IHru | apply IHrt].
    + apply pq_restore. apply IHfe.
    + destruct (in_loop (advance st)); exact I.
    + destruct (in_loop (advance st)); exact I.
    + destruct (negb (in_fn (advance st))); [exact I|].
      destruct (at_end (advance st) || check TRightBrace (advance st)); [exact I|].
      destruct (match_tok TSoftSemi (advance st)) as [[|] st2]; [exact I|].
      eapply pq_bind; [apply expression_ok|]. intros e st2' He.
      eapply pq_bind; [apply pq_any|]. intros _u st3 _. exact He.
    + apply IHim.
  - (* p_expr_stmt *)
    intros st. cbn [p_expr_stmt].
    eapply pq_bind; [apply expression_ok|]. intros e st1 He.
    destruct (at_end st1); [exact He|]. destruct (check TRightBrace st1); [exact He|].
    eapply pq_bind; [apply pq_any|]. intros _t st2 _. exact He.
  - (* p_block *)
    intros lb acc st Hacc. cbn [p_block].
    destruct (negb (check TRightBrace st) && negb (at_end st)).
    + destruct (match_tok TSoftSemi st) as [[|] st1]; [apply IHb; auto|].
      eapply pq_bind; [apply IHd|]. intros s st1' Hs. apply IHb. constructor; auto.
    + eapply pq_bind; [apply pq_any|]. intros _rb st1 _.
      cbn [pq stmt_ok]. apply stmt_all_forall. apply Forall_rev. exact Hacc.
  - (* p_if *)
    intros t st. cbn [p_if].
    eapply pq_bind; [apply pq_any|]. intros _lp st1 _.
    eapply pq_bind; [apply expression_ok|]. intros c st2 Hc.
    eapply pq_bind; [apply pq_any|]. intros _rp st3 _.
    eapply pq_bind; [apply IHs|]. intros th st4 Hth.
    destruct (match_tok TElse st4) as [[|] st5].
    + eapply pq_bind; [apply IHs|]. intros el st6 Hel. cbn [pq stmt_ok]. auto.
    + cbn [pq stmt_ok]. auto.
  - (* p_repeat_times *)
    intros st. cbn [p_repeat_times].
    eapply pq_bind; [apply expression_ok|]. intros n st1 Hn.
    apply pq_prev. intros ct.
    eapply pq_bind; [apply pq_any|]. intros _t st2 _.
    eapply pq_bind; [apply IHs|]. intros body st3 Hb. cbn [pq stmt_ok]. auto.
  - (* p_repeat_until *)
    intros st. cbn [p_repeat_until].
    eapply pq_bind; [apply pq_any|]. intros ut st1 _.
    eapply pq_bind; [apply pq_any|]. intros _lp st2 _.
    eapply pq_bind; [apply expression_ok|]. intros c st3 Hc.
    eapply pq_bind; [apply pq_any|]. intros _rp st4 _.
    eapply pq_bind; [apply IHs|]. intros body st5 Hb. cbn [pq stmt_ok]. auto.
  - (* p_for_each *)
    intros st. cbn [p_for_each].
    eapply pq_bind; [apply pq_any|]. intros et st1 _.
    eapply pq_bind; [apply pq_any|]. intros item st2 _.
    eapply pq_bind; [apply pq_any|]. intros _in st3 _.
    eapply pq_bind; [apply expression_ok|]. intros l st4 Hl.
    apply pq_prev. intros lt.
    eapply pq_bind; [apply IHs|]. intros body st5 Hb. cbn [pq stmt_ok]. auto.
  - (* p_import *)
    intros st. cbn [p_import].
    eapply pq_bind; [apply pq_any|]. intros only st1 _.
    eapply pq_bind; [apply pq_any|]. intros _from st2 _.
    eapply pq_bind; [apply pq_any|]. intros _mod st3 _.
    eapply pq_bind; [apply pq_any|]. intros name st4 _.
    eapply pq_bind; [apply pq_any|]. intros _u st5 _.
    destruct (lit_string name); [|exact I].
    destruct (match only with Some ts => option_map Some (names_of ts) | None => Some None end); exact I.
Qed.

Lemma program_loop_ok inner : forall fuel st stmts errs, Forall stmt_ok stmts ->
  match program_loop fuel inner st stmts errs with ParseOk p => Forall stmt_ok p | _ => True end.
Proof.
  induction fuel as [|fuel IH]; intros st stmts errs Hs; [exact I|].
  cbn [program_loop]. destruct (rest st); [exact I|].
  destruct (at_end st).
  { destruct errs; [apply Forall_rev; exact Hs | exact I]. }
  destruct (match_tok TSoftSemi st) as [[|] st1]; [apply IH; auto|].
  destruct (ok_stmt_all inner) as (Hd & _). specialize (Hd st).
  destruct (p_declaration inner st) as [s st1'|e st1'|site|]; try exact I.
  - apply IH. constructor; auto.
  - apply IH; auto.
Qed.

Theorem parse_prog_ok : forall ts p, parse_tokens ts = ParseOk p -> prog_ok p.
Proof.
  intros ts p E. split; [exact (parse_wf ts p E)|].
  unfold parse_tokens in E.
  pose proof (program_loop_ok (fuel_for ts) (S (S (length ts))) (mkP ts None false false) [] [] (Forall_nil _)) as H.
  rewrite E in H. exact H.
Qed.
