(** EvalMono: fuel is only a termination device.  A finished evaluation (any outcome other than
    [RFuel]) is unchanged by more fuel; explicit groups are transparent to evaluation; the two
    nestings of an AND chain evaluate alike. *)
From Aplang Require Import Base FloatX Token Ast Tables Robot Value StrLib LexImpl ParseImpl EvalImpl Printer.
From Aplang.Gen Require Import Generated.
Open Scope N_scope.

(** [rle r r']: if [r] is a finished outcome then [r'] is the same outcome *)
Definition rle {A} (r r' : res A) : Prop :=
  match r with
  | RFuel => True
  | _ => r' = r
  end.

Lemma rle_refl : forall A (r : res A), rle r r.
Proof. intros A r. destruct r; cbn [rle]; trivial. Qed.

Lemma rle_fuel : forall A (r : res A), rle RFuel r.
Proof. intros A r. exact I. Qed.

Lemma rle_trans : forall A (a b c : res A), rle a b -> rle b c -> rle a c.
Proof.
  intros A a b c Hab Hbc.
  destruct a; cbn [rle] in *; trivial; subst b; cbn [rle] in Hbc; exact Hbc.
Qed.

Lemma rle_rbind : forall A B (m m' : res A) (k k' : A -> state -> res B),
  rle m m' -> (forall x st, rle (k x st) (k' x st)) -> rle (rbind m k) (rbind m' k').
Proof.
  intros A B m m' k k' Hm Hk.
  destruct m; cbn [rle] in Hm; try subst m'; cbn [rbind rle]; trivial; apply Hk.
Qed.

Lemma rle_elim : forall A (r r' x : res A), rle r r' -> r = x -> x <> RFuel -> r' = x.
Proof.
  intros A r r' x Hle Hr Hx. subst x.
  destruct r; cbn [rle] in Hle; try exact Hle. exfalso. apply Hx. reflexivity.
Qed.

Lemma rle_intro : forall A (r r' : res A), (forall x, r = x -> x <> RFuel -> r' = x) -> rle r r'.
Proof.
  intros A r r' H. destruct r; cbn [rle]; trivial; apply H; try reflexivity; discriminate.
Qed.

Create HintDb rle.
#[export] Hint Resolve rle_refl rle_fuel : rle.

(* one step of the mechanical analysis of a goal [rle r r'] where [r] and [r'] have the same shape *)
Ltac rle_step :=
  cbv zeta;
  lazymatch goal with
  | |- rle RFuel _ => exact I
  | |- rle (rbind _ _) (rbind _ _) =>
    let x := fresh "x" in let st1 := fresh "st" in apply rle_rbind; [| intros x st1]
  | |- rle (match ?x with _ => _ end) (match ?x with _ => _ end) => destruct x
  | |- rle _ _ => first [ solve [eauto 4 with rle] | apply rle_refl ]
  end.
Ltac rle_auto := repeat rle_step.

(** ** the statement helpers: pointwise refinement of the recursive calls, a larger iteration budget,
    and a transformation [g] of the argument expressions *)
Section HelpersLe.
  Variable ev ev' : expr -> state -> res value.
  Variable ex ex' : stmt -> state -> res unit.
  Variable g : expr -> expr.
  Hypothesis Hev : forall e st, rle (ev e st) (ev' (g e) st).
  Hypothesis Hex : forall s st, rle (ex s st) (ex' s st).

  Lemma eval_args_le : forall es st, rle (eval_args ev es st) (eval_args ev' (map g es) st).
  Proof.
    induction es as [|e es IHes]; intros st; cbn [eval_args map]; rle_auto.
  Qed.

  Lemma block_stmts_le : forall ss st, rle (block_stmts ex ss st) (block_stmts ex' ss st).
  Proof.
    induction ss as [|s ss IHss]; intros st; cbn [block_stmts]; rle_auto.
  Qed.

  Lemma block_top_le : forall ss st, rle (block_top ex ss st) (block_top ex' ss st).
  Proof.
    induction ss as [|s ss IHss]; intros st; cbn [block_top]; rle_auto.
  Qed.

  Lemma times_loop_le : forall k k' n body st, (k <= k')%nat ->
    rle (times_loop ex k n body st) (times_loop ex' k' n body st).
  Proof.
    induction k as [|k IHk]; intros k' n body st Hk; [exact I|].
    destruct k' as [|k']; [inversion Hk|]. apply le_S_n in Hk.
    cbn [times_loop]. rle_auto.
  Qed.

  Lemma each_loop_le : forall k k' a x i len body st, (k <= k')%nat ->
    rle (each_loop ex k a x i len body st) (each_loop ex' k' a x i len body st).
  Proof.
    induction k as [|k IHk]; intros k' a x i len body st Hk; [exact I|].
    destruct k' as [|k']; [inversion Hk|]. apply le_S_n in Hk.
    cbn [each_loop]. rle_auto.
  Qed.
End HelpersLe.

Section UntilLe.
  Variable ev ev' : expr -> state -> res value.
  Variable ex ex' : stmt -> state -> res unit.
  Hypothesis Hev : forall e st, rle (ev e st) (ev' e st).
  Hypothesis Hex : forall s st, rle (ex s st) (ex' s st).

  Lemma until_loop_le : forall k k' c body st, (k <= k')%nat ->
    rle (until_loop ev ex k c body st) (until_loop ev' ex' k' c body st).
  Proof.
    induction k as [|k IHk]; intros k' c body st Hk; [exact I|].
    destruct k' as [|k']; [inversion Hk|]. apply le_S_n in Hk.
    cbn [until_loop]. rle_auto.
  Qed.
End UntilLe.

Lemma eval_args_le_id : forall ev ev', (forall e st, rle (ev e st) (ev' e st)) ->
  forall es st, rle (eval_args ev es st) (eval_args ev' es st).
Proof.
  intros ev ev' Hev es st.
  rewrite <- (map_id es) at 2. apply eval_args_le. exact Hev.
Qed.

#[export] Hint Resolve eval_args_le eval_args_le_id block_stmts_le block_top_le times_loop_le each_loop_le
  until_loop_le : rle.

(** ** more fuel *)
Lemma eval_exec_mono : forall f,
  (forall e st, rle (eval f e st) (eval (S f) e st)) /\
  (forall s st, rle (exec f s st) (exec (S f) s st)).
Proof.
  induction f as [|f [IHe IHx]]; split.
  - intros e st. exact I.
  - intros s st. exact I.
  - intros e st. destruct e; cbn [eval]; rle_auto.
  - intros s st. destruct s; cbn [exec]; rle_auto.
Qed.

Theorem eval_fuel_mono : forall f e st r, eval f e st = r -> r <> RFuel -> eval (S f) e st = r.
Proof.
  intros f e st r Hr Hnf. exact (rle_elim _ _ _ _ (proj1 (eval_exec_mono f) e st) Hr Hnf).
Qed.

Theorem exec_fuel_mono : forall f s st r, exec f s st = r -> r <> RFuel -> exec (S f) s st = r.
Proof.
  intros f s st r Hr Hnf. exact (rle_elim _ _ _ _ (proj2 (eval_exec_mono f) s st) Hr Hnf).
Qed.

Lemma eval_mono_rle : forall f e st, rle (eval f e st) (eval (S f) e st).
Proof. intros f e st. exact (proj1 (eval_exec_mono f) e st). Qed.

Lemma eval_mono_rle2 : forall f e st, rle (eval f e st) (eval (S (S f)) e st).
Proof. intros f e st. eapply rle_trans; apply eval_mono_rle. Qed.

(** ** groups are transparent *)
Lemma eval_ungroup_rle : forall f e st, rle (eval f e st) (eval f (ungroup e) st).
Proof.
  induction f as [|f IHf]; intros e st; [exact I|].
  destruct e; cbn [ungroup]; try apply rle_refl; [|cbn [eval]; rle_auto ..].
  (* EGroup: the sub-evaluation ran at f, now runs at S f *)
  cbn [eval]. eapply rle_trans; [apply IHf | apply eval_mono_rle].
Qed.

Theorem eval_ungroup : forall f e st r, eval f e st = r -> r <> RFuel -> eval f (ungroup e) st = r.
Proof.
  intros f e st r Hr Hnf. exact (rle_elim _ _ _ _ (eval_ungroup_rle f e st) Hr Hnf).
Qed.

(** ** AND chains *)
Lemma eval_log_S : forall f op tok l r st,
  eval (S f) (ELog op tok l r) st =
    (let* a, st1 <- eval f l st;
     let* t, st2 <- truthy_r a st1;
     if match op with LOr => t | LAnd => negb t end then ROk a st2 else eval f r st2).
Proof. intros f op tok l r st. reflexivity. Qed.

Lemma and_assoc_rle : forall f t1 t2 t3 t4 a b c st,
  rle (eval f (ELog LAnd t1 (ELog LAnd t2 a b) c) st)
      (eval (S f) (ELog LAnd t3 a (ELog LAnd t4 b c)) st).
Proof.
  intros f t1 t2 t3 t4 a b c st.
  destruct f as [|[|f]]; [exact I|exact I|].
  rewrite (eval_log_S (S f) LAnd t1), (eval_log_S f LAnd t2), (eval_log_S (S (S f)) LAnd t3).
  pose proof (eval_mono_rle2 f a st) as Ha.
  destruct (eval f a st) as [va s1| | | |]; cbn [rle] in Ha; try rewrite Ha; cbn [rbind rle]; trivial.
  unfold truthy_r at 1 3. destruct (truthy va) as [ta|] eqn:Hta; cbn [rbind rle]; trivial.
  destruct ta; cbn [negb].
  - rewrite (eval_log_S (S f) LAnd t4).
    pose proof (eval_mono_rle f b s1) as Hb.
    destruct (eval f b s1) as [vb s3| | | |]; cbn [rle] in Hb; try rewrite Hb; cbn [rbind rle]; trivial.
    apply rle_refl.
  - cbn [rbind]. unfold truthy_r. rewrite Hta. cbn [rbind negb rle]. reflexivity.
Qed.

Theorem and_assoc_eval : forall f t1 t2 t3 t4 a b c st r,
  eval f (ELog LAnd t1 (ELog LAnd t2 a b) c) st = r -> r <> RFuel ->
  eval (S f) (ELog LAnd t3 a (ELog LAnd t4 b c)) st = r.
Proof.
  intros f t1 t2 t3 t4 a b c st r Hr Hnf.
  exact (rle_elim _ _ _ _ (and_assoc_rle f t1 t2 t3 t4 a b c st) Hr Hnf).
Qed.
