(** StrProofs: the string operations of StrLib.v against their list-theoretic specifications
    (the lemmas behind Props/C14.v). *)
From Aplang Require Import Base FloatX Value StrLib.
From Coq Require Import ZifyBool.
Open Scope N_scope.

Local Arguments N.add : simpl never.
Local Arguments N.sub : simpl never.
Local Arguments N.eqb : simpl never.
Local Arguments N.ltb : simpl never.
Local Arguments N.leb : simpl never.

(** ** prefix *)
Lemma starts_with_spec : forall s p, prefix_b p s = true <-> exists b, s = p ++ b.
Proof.
  intros s p; revert s.
  induction p as [|x p IHp]; intros s.
  - cbn [prefix_b app]. split.
    + intros _. exists s. reflexivity.
    + intros _. reflexivity.
  - destruct s as [|y s].
    + cbn [prefix_b]. split.
      * intros Hf. discriminate Hf.
      * intros [b Hb]. discriminate Hb.
    + cbn [prefix_b]. split.
      * intros Hpre. apply andb_true_iff in Hpre as [Hxy Hrest].
        apply N.eqb_eq in Hxy. apply IHp in Hrest as [b Hb].
        exists b. subst. reflexivity.
      * intros [b Hb]. cbn [app] in Hb. inversion Hb as [[Hy Hs]].
        rewrite N.eqb_refl. cbn [andb]. apply IHp. exists b. reflexivity.
Qed.

Lemma skipn_app_len : forall (A : Type) (a b : list A), skipn (length a) (a ++ b) = b.
Proof.
  intros A a b. induction a as [|x a IHa]; [reflexivity|]. cbn [length app skipn]. exact IHa.
Qed.

Lemma firstn_app_len : forall (A : Type) (a b : list A), firstn (length a) (a ++ b) = a.
Proof.
  intros A a b. induction a as [|x a IHa]; [reflexivity|]. cbn [length app firstn]. rewrite IHa. reflexivity.
Qed.

Lemma prefix_b_skipn : forall p s, prefix_b p s = true -> s = p ++ skipn (length p) s.
Proof.
  intros p s Hpre. apply starts_with_spec in Hpre as [b Hb].
  subst s. rewrite skipn_app_len. reflexivity.
Qed.

(** ** contains / ends_with *)
Lemma contains_spec : forall s p, contains_b s p = true <-> exists a b, s = a ++ p ++ b.
Proof.
  intros s p. induction s as [|c r IHr].
  - cbn [contains_b]. rewrite orb_false_r. split.
    + intros Hpre. apply starts_with_spec in Hpre as [b Hb]. exists [], b. exact Hb.
    + intros [a [b Hab]]. apply starts_with_spec.
      destruct a as [|x a]; [|discriminate Hab]. exists b. exact Hab.
  - cbn [contains_b]. split.
    + intros Hor. apply orb_true_iff in Hor as [Hpre|Hrest].
      * apply starts_with_spec in Hpre as [b Hb]. exists [], b. exact Hb.
      * apply IHr in Hrest as [a [b Hab]]. exists (c :: a), b. rewrite Hab. reflexivity.
    + intros [a [b Hab]]. apply orb_true_iff.
      destruct a as [|x a].
      * left. apply starts_with_spec. exists b. exact Hab.
      * right. apply IHr. cbn [app] in Hab. inversion Hab as [[Hx Hr]]. exists a, b. reflexivity.
Qed.

Lemma ends_with_spec : forall s p, ends_with_b s p = true <-> exists a, s = a ++ p.
Proof.
  intros s p. unfold ends_with_b. rewrite starts_with_spec. split.
  - intros [b Hb]. exists (rev b).
    rewrite <- (rev_involutive s), Hb, rev_app_distr, rev_involutive. reflexivity.
  - intros [a Ha]. exists (rev a). rewrite Ha, rev_app_distr. reflexivity.
Qed.

(** ** split / join *)
Lemma split_ne_nonempty : forall f s p cur, split_ne f s p cur <> [].
Proof.
  intros f. induction f as [|f IHf]; intros s p cur.
  - cbn [split_ne]. discriminate.
  - cbn [split_ne]. destruct s as [|c r]; [discriminate|].
    destruct (prefix_b p (c :: r)); [discriminate|]. apply IHf.
Qed.

Lemma join_with_cons : forall sep x l, l <> [] -> join_with sep (x :: l) = x ++ sep ++ join_with sep l.
Proof.
  intros sep x l Hl. destruct l as [|y l]; [contradiction Hl; reflexivity|]. reflexivity.
Qed.

Lemma join_split_ne : forall f s p cur, p <> [] -> (length s < f)%nat ->
  join_with p (split_ne f s p cur) = rev cur ++ s.
Proof.
  intros f. induction f as [|f IHf]; intros s p cur Hp Hlen.
  - inversion Hlen.
  - cbn [split_ne]. destruct s as [|c r].
    + cbn [join_with]. rewrite app_nil_r. reflexivity.
    + destruct (prefix_b p (c :: r)) eqn:Hpre.
      * rewrite join_with_cons by apply split_ne_nonempty.
        rewrite IHf.
        -- cbn [rev app]. rewrite <- (prefix_b_skipn _ _ Hpre). reflexivity.
        -- exact Hp.
        -- rewrite skipn_length. destruct p as [|x p]; [contradiction Hp; reflexivity|].
           cbn [length] in *. lia.
      * rewrite IHf.
        -- cbn [rev]. rewrite <- app_assoc. reflexivity.
        -- exact Hp.
        -- cbn [length] in Hlen. lia.
Qed.

Lemma join_split : forall s p, p <> [] -> join_with p (split s p) = s.
Proof.
  intros s p Hp. unfold split. destruct p as [|x p]; [contradiction Hp; reflexivity|].
  rewrite join_split_ne.
  - reflexivity.
  - exact Hp.
  - lia.
Qed.

Lemma split_pieces_count : forall s p, p <> [] -> (1 <= length (split s p))%nat.
Proof.
  intros s p Hp. unfold split. destruct p as [|x p]; [contradiction Hp; reflexivity|].
  pose proof (split_ne_nonempty (S (length s)) s (x :: p) []) as Hne.
  destruct (split_ne (S (length s)) s (x :: p) []) as [|y l]; [contradiction Hne; reflexivity|].
  cbn [length]. lia.
Qed.

Lemma split_empty_pattern : forall s, split s [] = [[]] ++ map (fun c => [c]) s ++ [[]].
Proof. intros s. reflexivity. Qed.

(** ** replace *)
Lemma replace_spec : forall s from to, from <> [] -> replace s from to = join_with to (split s from).
Proof.
  intros s from to Hfrom. unfold replace. destruct from as [|x from]; [contradiction Hfrom; reflexivity|].
  reflexivity.
Qed.

Lemma replace_identity : forall s from, from <> [] -> replace s from from = s.
Proof.
  intros s from Hfrom. rewrite replace_spec by exact Hfrom. apply join_split. exact Hfrom.
Qed.

(** ** substring *)
Lemma substring_spec : forall s start len, (1 <= start)%N ->
  substring s start len =
    firstn (N.to_nat (N.min len (N.of_nat (length s)))) (skipn (N.to_nat (N.min (start - 1) (N.of_nat (length s)))) s).
Proof. intros s start len Hstart. reflexivity. Qed.

Lemma substring_is_slice : forall a b c,
  substring (a ++ b ++ c) (N.of_nat (length a) + 1) (N.of_nat (length b)) = b.
Proof.
  intros a b c. unfold substring.
  replace (N.min (N.of_nat (length a) + 1 - 1) (N.of_nat (length (a ++ b ++ c)))) with (N.of_nat (length a))
    by (rewrite !app_length; lia).
  replace (N.min (N.of_nat (length b)) (N.of_nat (length (a ++ b ++ c)))) with (N.of_nat (length b))
    by (rewrite !app_length; lia).
  rewrite !Nat2N.id. rewrite skipn_app_len. apply firstn_app_len.
Qed.

Lemma substring_clipped : forall s start len, (1 <= start)%N -> (length (substring s start len) <= length s)%nat.
Proof.
  intros s start len Hstart. unfold substring.
  eapply Nat.le_trans; [apply firstn_le_length|].
  lia.
Qed.

(** ** trim *)
Lemma trim_start_spec : forall s, exists l,
  s = l ++ trim_start s /\ forallb is_ws l = true /\
  (match trim_start s with [] => True | c :: _ => is_ws c = false end).
Proof.
  intros s. induction s as [|c r IHr].
  - exists []. cbn [trim_start app forallb]. repeat split.
  - cbn [trim_start]. destruct (is_ws c) eqn:Hws.
    + destruct IHr as [l [Hl [Hall Hhd]]]. exists (c :: l). repeat split.
      * cbn [app]. rewrite <- Hl. reflexivity.
      * cbn [forallb]. rewrite Hws, Hall. reflexivity.
      * exact Hhd.
    + exists []. repeat split. exact Hws.
Qed.

Lemma forallb_rev : forall (A : Type) (f : A -> bool) (l : list A), forallb f l = true -> forallb f (rev l) = true.
Proof.
  intros A f l Hall. apply forallb_forall. intros x Hin.
  apply in_rev in Hin. rewrite forallb_forall in Hall. apply Hall. exact Hin.
Qed.

Lemma trim_spec : forall s, exists l r,
  s = l ++ trim s ++ r /\ forallb is_ws l = true /\ forallb is_ws r = true /\
  (match trim s with [] => True | c :: _ => is_ws c = false end) /\
  (match rev (trim s) with [] => True | c :: _ => is_ws c = false end).
Proof.
  intros s. unfold trim, trim_end.
  destruct (trim_start_spec s) as [l [Hl [Hall_l Hhd_l]]].
  remember (trim_start s) as t eqn:Ht.
  destruct (trim_start_spec (rev t)) as [l' [Hl' [Hall_l' Hhd_l']]].
  remember (trim_start (rev t)) as u eqn:Hu.
  assert (Ht' : t = rev u ++ rev l').
  { rewrite <- (rev_involutive t), Hl', rev_app_distr. reflexivity. }
  exists l, (rev l'). repeat split.
  - rewrite <- Ht'. exact Hl.
  - exact Hall_l.
  - apply forallb_rev. exact Hall_l'.
  - destruct (rev u) as [|c ru] eqn:Hru; [exact I|].
    rewrite Ht' in Hhd_l. cbn [app] in Hhd_l. exact Hhd_l.
  - rewrite rev_involutive. exact Hhd_l'.
Qed.

(** ** case mapping on ASCII *)
Lemma upper_of_ascii : forall c, c <? 128 = true -> upper_of c = [ascii_upper_c c].
Proof.
  intros c Hc. unfold upper_of, ascii_upper_c.
  destruct ((97 <=? c) && (c <=? 122)); [reflexivity|].
  destruct (N.eqb_spec c 223) as [He|He]; [lia|].
  destruct (N.eqb_spec c 962) as [He2|He2]; [lia|].
  cbn [find case_pairs fst snd].
  repeat match goal with
  | |- context [N.eqb ?a c] => destruct (N.eqb_spec a c) as [Hx|Hx]; [lia|clear Hx]
  end.
  reflexivity.
Qed.

Lemma lower_of_ascii : forall c, c <? 128 = true -> lower_of c = [ascii_lower c].
Proof.
  intros c Hc. unfold lower_of, ascii_lower.
  destruct ((65 <=? c) && (c <=? 90)); [reflexivity|].
  cbn [find case_pairs fst snd].
  repeat match goal with
  | |- context [N.eqb ?a c] => destruct (N.eqb_spec a c) as [Hx|Hx]; [lia|clear Hx]
  end.
  reflexivity.
Qed.

Lemma to_upper_ascii : forall s, forallb (fun c => c <? 128)%N s = true -> to_upper s = map ascii_upper_c s.
Proof.
  intros s. unfold to_upper. induction s as [|c r IHr]; intros Hall.
  - reflexivity.
  - cbn [forallb] in Hall. apply andb_true_iff in Hall as [Hc Hr].
    cbn [flat_map map]. rewrite (upper_of_ascii c Hc), (IHr Hr). reflexivity.
Qed.

Lemma lower_ctx_ascii : forall s b, forallb (fun c => c <? 128)%N s = true -> lower_ctx b s = map ascii_lower s.
Proof.
  induction s as [|c r IHr]; intros b Hall.
  - reflexivity.
  - cbn [forallb] in Hall. apply andb_true_iff in Hall as [Hc Hr].
    cbn [lower_ctx map]. assert (Hn : (c =? 931) = false) by (apply N.eqb_neq; apply N.ltb_lt in Hc; lia).
    rewrite Hn, (lower_of_ascii c Hc), (IHr _ Hr). reflexivity.
Qed.

Lemma to_lower_ascii : forall s, forallb (fun c => c <? 128)%N s = true -> to_lower s = map ascii_lower s.
Proof. intros s H. unfold to_lower. apply lower_ctx_ascii. exact H. Qed.

(** ** parse_bool *)
Lemma parse_bool_spec : forall s b, parse_bool s = Some b <-> s = (if b then t_true else t_false).
Proof.
  intros s b. unfold parse_bool. split.
  - intros Hparse. destruct (text_eqb s t_true) eqn:Etrue.
    + apply text_eqb_eq in Etrue. inversion Hparse as [Hb]. exact Etrue.
    + destruct (text_eqb s t_false) eqn:Efalse.
      * apply text_eqb_eq in Efalse. inversion Hparse as [Hb]. exact Efalse.
      * discriminate Hparse.
  - intros Hs. subst s. destruct b; reflexivity.
Qed.

(** ** positions *)
Lemma positions_consistent : forall (s : text) k,
  (exists c, nth_N s k = Some c) <-> (k < N.of_nat (length s))%N.
Proof.
  intros s k. unfold nth_N. destruct (N.ltb_spec k (N.of_nat (length s))) as [Hlt|Hge].
  - split; [intros _; exact Hlt|]. intros _.
    destruct (nth_error s (N.to_nat k)) as [c|] eqn:Enth.
    + exists c. reflexivity.
    + apply nth_error_None in Enth. lia.
  - split.
    + intros [c Hc]. discriminate Hc.
    + intros Hlt. lia.
Qed.

Lemma char_array_length : forall (s : text), length (map (fun c => VStr [c]) s) = length s.
Proof. intros s. apply map_length. Qed.
