(** Base: characters, UTF-8, text serialisation helpers, outcomes.
    A text (source program, string value, output) is a [list N] of Unicode scalar
    values; byte offsets are sums of [utf8_len]. *)
From Coq Require Export Ascii String.
From Coq Require Export List NArith ZArith Bool Lia.
Export ListNotations.
Open Scope N_scope.

Definition text := list N.

Definition utf8_len (c : N) : N :=
  if c <? 128 then 1 else if c <? 2048 then 2 else if c <? 65536 then 3 else 4.

Fixpoint byte_len (s : text) : N :=
  match s with [] => 0 | c :: r => utf8_len c + byte_len r end.

(** UTF-8 encoding of one scalar value *)
Definition utf8_enc (c : N) : list N :=
  if c <? 128 then [c]
  else if c <? 2048 then [192 + c / 64; 128 + c mod 64]
  else if c <? 65536 then [224 + c / 4096; 128 + (c / 64) mod 64; 128 + c mod 64]
  else [240 + c / 262144; 128 + (c / 4096) mod 64; 128 + (c / 64) mod 64; 128 + c mod 64].

Definition utf8_encode (s : text) : list N := flat_map utf8_enc s.

(** decoding of well-formed UTF-8 (the case files only contain well-formed text);
    a malformed byte decodes to itself *)
Fixpoint utf8_decode (fuel : nat) (b : list N) : text :=
  match fuel with O => [] | S f =>
  match b with
  | [] => []
  | x :: r =>
    if x <? 128 then x :: utf8_decode f r
    else if x <? 224 then
      match r with y :: r' => ((x - 192) * 64 + (y - 128)) :: utf8_decode f r' | _ => [x] end
    else if x <? 240 then
      match r with y :: z :: r' => ((x - 224) * 4096 + (y - 128) * 64 + (z - 128)) :: utf8_decode f r' | _ => [x] end
    else
      match r with y :: z :: w :: r' =>
        ((x - 240) * 262144 + (y - 128) * 4096 + (z - 128) * 64 + (w - 128)) :: utf8_decode f r' | _ => [x] end
  end end.

Fixpoint string_bytes (s : string) : list N :=
  match s with EmptyString => [] | String a r => N_of_ascii a :: string_bytes r end.

Definition txt (s : string) : text :=
  let b := string_bytes s in utf8_decode (S (length b)) b.

Fixpoint bytes_string (b : list N) : string :=
  match b with [] => EmptyString | x :: r => String (ascii_of_N x) (bytes_string r) end.

(** text equality *)
Fixpoint text_eqb (a b : text) : bool :=
  match a, b with
  | [], [] => true
  | x :: a', y :: b' => (x =? y) && text_eqb a' b'
  | _, _ => false
  end.

Lemma text_eqb_eq a b : text_eqb a b = true <-> a = b.
Proof.
  revert b; induction a as [|x a IH]; intros [|y b]; simpl; split; intro H; try easy.
  - apply andb_true_iff in H as [H1 H2]. apply N.eqb_eq in H1. apply IH in H2. congruence.
  - inversion H; subst. rewrite N.eqb_refl. simpl. apply IH. reflexivity.
Qed.

Lemma text_eqb_refl a : text_eqb a a = true.
Proof. apply text_eqb_eq; reflexivity. Qed.

(** decimal rendering of a natural number *)
Fixpoint dec_digits (fuel : nat) (n : N) (acc : text) : text :=
  match fuel with
  | O => acc
  | S f => let acc' := (48 + n mod 10) :: acc in
           if n <? 10 then acc' else dec_digits f (n / 10) acc'
  end.
Definition dec (n : N) : text := dec_digits (S (N.to_nat (N.log2 n))) n [].

Definition hex_digit (n : N) : N := if n <? 10 then 48 + n else 87 + n.
Definition hex_bytes (b : list N) : text :=
  flat_map (fun x => [hex_digit (x / 16); hex_digit (x mod 16)]) b.
Definition hex_text (s : text) : text := hex_bytes (utf8_encode s).

(** fixed-width hexadecimal (16 digits) of a 64-bit number *)
Fixpoint hex_fixed (digits : nat) (n : N) (acc : text) : text :=
  match digits with O => acc | S d => hex_fixed d (n / 16) (hex_digit (n mod 16) :: acc) end.
Definition hex64 (n : N) : text := hex_fixed 16 n [].

(** outcomes of the executable models *)
Inductive outcome (A : Type) : Type :=
| Ok (x : A)
| OutOfFuel.
Arguments Ok {A} x.
Arguments OutOfFuel {A}.

(** generic helpers *)
Fixpoint repeat_text (c : N) (n : nat) : text :=
  match n with O => [] | S k => c :: repeat_text c k end.

Fixpoint update_nth {A} (l : list A) (n : nat) (x : A) : list A :=
  match l, n with
  | [], _ => []
  | _ :: r, O => x :: r
  | y :: r, S k => y :: update_nth r k x
  end.

Lemma update_nth_length {A} (l : list A) n x : length (update_nth l n x) = length l.
Proof. revert n; induction l as [|y l IH]; intros [|n]; simpl; auto. Qed.

Lemma nth_error_update_nth_eq {A} (l : list A) n x :
  (n < length l)%nat -> nth_error (update_nth l n x) n = Some x.
Proof.
  revert n; induction l as [|y l IH]; intros [|n]; simpl; intro H; try lia; auto.
  apply IH. lia.
Qed.

Lemma nth_error_update_nth_neq {A} (l : list A) n m x :
  n <> m -> nth_error (update_nth l n x) m = nth_error l m.
Proof.
  revert n m; induction l as [|y l IH]; intros [|n] [|m]; simpl; intro H; auto; try congruence.
Qed.
