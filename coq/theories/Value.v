(** Value: run-time values, the heap of list / map / robot cells, the interpreter state,
    outcomes, displayed form, the operator tables applied to values.
    (src/interpreter/value.rs, env.rs, errors.rs, the match tables of interpreter.rs) *)
From Aplang Require Import Base FloatX Token Ast Tables Robot.
From Aplang.Gen Require Import Generated.
Open Scope N_scope.

Inductive value :=
| VNull
| VNum (f : float)
| VBool (b : bool)
| VStr (s : text)
| VList (a : nat)        (* address of a CList cell: lists have reference identity *)
| VObj (a : nat).        (* address of a CMap / CRobot cell (Value::NativeObject) *)

Inductive cell :=
| CList (l : list value)
| CMap (m : list (value * value))     (* insertion order; keys pairwise unequal under key_eq *)
| CRobot (r : robot).

Definition heap_t := list cell.

(** runtime error classes, in bijection with the [message] strings of RuntimeError *)
Inductive rt_kind :=
| InvalidCount | InvalidIterator | InvalidVariable | InvalidProcedure | IncorrectArgs | InvalidIndex
| InvalidListIndex | InvalidType | DivisionByZero | ModuloByZero | Incomparable | InvalidUnaryOp
| InvalidCast | InvalidObject | InvalidFunction | InvalidRange | InvalidStringIndex | InvalidFormat
| NoUserModules | ModuleNotFound | ModuleFileMissing | ModuleUnreadable | ModuleInvalid
| UnknownMessage.

Definition rt_name (k : rt_kind) : string :=
  match k with
  | InvalidCount => "InvalidCount" | InvalidIterator => "InvalidIterator" | InvalidVariable => "InvalidVariable"
  | InvalidProcedure => "InvalidProcedure" | IncorrectArgs => "IncorrectArgs" | InvalidIndex => "InvalidIndex"
  | InvalidListIndex => "InvalidListIndex" | InvalidType => "InvalidType" | DivisionByZero => "DivisionByZero"
  | ModuloByZero => "ModuloByZero" | Incomparable => "Incomparable" | InvalidUnaryOp => "InvalidUnaryOp"
  | InvalidCast => "InvalidCast" | InvalidObject => "InvalidObject" | InvalidFunction => "InvalidFunction"
  | InvalidRange => "InvalidRange" | InvalidStringIndex => "InvalidStringIndex" | InvalidFormat => "InvalidFormat"
  | NoUserModules => "NoUserModules" | ModuleNotFound => "ModuleNotFound" | ModuleFileMissing => "ModuleFileMissing"
  | ModuleUnreadable => "ModuleUnreadable" | ModuleInvalid => "ModuleInvalid" | UnknownMessage => "UNKNOWN"
  end%string.

Definition kind_of_message (m : string) : rt_kind :=
  if String.eqb m "Division by Zero" then DivisionByZero
  else if String.eqb m "Modulo by Zero" then ModuloByZero
  else if String.eqb m "Incomparable Values" then Incomparable
  else if String.eqb m "Invalid Unary Op" then InvalidUnaryOp
  else UnknownMessage.

Inductive panic_site :=
| PanicLoopStack          (* loop_stack.last_mut().unwrap() in BREAK / CONTINUE *)
| PanicLoopPop            (* assert!(loop_stack.pop().is_some()) *)
| PanicScope              (* Env::activate / scrape on an empty scope stack *)
| PanicForEachVar         (* venv.remove(element).unwrap() after a FOR EACH body *)
| PanicArity              (* params.len().try_into::<u8>().unwrap() *)
| PanicArgs               (* __iter_toks.next().unwrap() *)
| PanicTable              (* an arm the translator could not recognise *)
| PanicRobotBug           (* robot.rs "THIS IS A BUG: Moved into a wall" / index out of range *)
| PanicImportLiteral.     (* unreachable!() on an IMPORT literal *)

(** procedures *)
Inductive fn :=
| FUser (params : list text) (body : stmt)
| FNative (modname name : string) (sig : list akind).

Definition scope := list (text * value).
Definition ftable := list (text * fn).

(** an entry of the host file system, as the FS module sees it *)
Inductive fsent := FFile (contents : text) | FDir.

(** oracles for what the models do not compute: libm, the random stream, the clock, the host files *)
Record oracle := mkOracle {
  o_libm : list (string * list N * N);        (* function, argument bits, result bits *)
  o_draws : list N;
  o_clock : float;
  o_files : list (text * text);              (* path -> contents, for user modules *)
  o_fs : list (text * fsent)                 (* the directory tree the FS procedures act on: path -> entry *)
}.

Record state := mkState {
  venv : list scope;                (* innermost first *)
  funcs : ftable;
  exports : ftable;
  retv : option value;
  loops : list (bool * bool);       (* (should_break, should_continue), innermost first *)
  heap : heap_t;
  out : list text;                  (* chunks sent through display!, newest first *)
  stdin_ : text;
  orc : oracle;
  path : text                       (* directory of the running file, "" for stdin *)
}.

Definition set_venv (st : state) v := mkState v (funcs st) (exports st) (retv st) (loops st) (heap st) (out st) (stdin_ st) (orc st) (path st).
Definition set_funcs (st : state) f := mkState (venv st) f (exports st) (retv st) (loops st) (heap st) (out st) (stdin_ st) (orc st) (path st).
Definition set_exports (st : state) f := mkState (venv st) (funcs st) f (retv st) (loops st) (heap st) (out st) (stdin_ st) (orc st) (path st).
Definition set_retv (st : state) r := mkState (venv st) (funcs st) (exports st) r (loops st) (heap st) (out st) (stdin_ st) (orc st) (path st).
Definition set_loops (st : state) l := mkState (venv st) (funcs st) (exports st) (retv st) l (heap st) (out st) (stdin_ st) (orc st) (path st).
Definition set_heap (st : state) h := mkState (venv st) (funcs st) (exports st) (retv st) (loops st) h (out st) (stdin_ st) (orc st) (path st).
Definition set_out (st : state) o := mkState (venv st) (funcs st) (exports st) (retv st) (loops st) (heap st) o (stdin_ st) (orc st) (path st).
Definition set_stdin (st : state) i := mkState (venv st) (funcs st) (exports st) (retv st) (loops st) (heap st) (out st) i (orc st) (path st).
Definition set_orc (st : state) o := mkState (venv st) (funcs st) (exports st) (retv st) (loops st) (heap st) (out st) (stdin_ st) o (path st).

Definition emit (st : state) (t : text) : state := set_out st (t :: out st).
Definition output_of (st : state) : text := concat (rev (out st)).

Inductive res (A : Type) :=
| ROk (x : A) (st : state)
| RErr (k : rt_kind) (sp : span) (st : state)
| RExit (st : state)                 (* the robot moved into a wall: specified termination *)
| RPanic (site : panic_site) (st : state)
| RFuel.
Arguments ROk {A} x st.
Arguments RErr {A} k sp st.
Arguments RExit {A} st.
Arguments RPanic {A} site st.
Arguments RFuel {A}.

Definition rbind {A B} (m : res A) (k : A -> state -> res B) : res B :=
  match m with
  | ROk x st => k x st
  | RErr e sp st => RErr e sp st
  | RExit st => RExit st
  | RPanic s st => RPanic s st
  | RFuel => RFuel
  end.
Notation "'let*' x , st <- m ; k" := (rbind m (fun x st => k)) (at level 200, x name, st name, m at level 100, k at level 200).

(** ** scopes *)
Fixpoint scope_get (s : scope) (x : text) : option value :=
  match s with [] => None | (y, v) :: r => if text_eqb x y then Some v else scope_get r x end.
Fixpoint scope_remove (s : scope) (x : text) : scope :=
  match s with [] => [] | (y, v) :: r => if text_eqb x y then scope_remove r x else (y, v) :: scope_remove r x end.
Definition scope_set (s : scope) (x : text) (v : value) : scope := (x, v) :: scope_remove s x.

Fixpoint ft_get (t : ftable) (x : text) : option fn :=
  match t with [] => None | (y, f) :: r => if text_eqb x y then Some f else ft_get r x end.
Fixpoint ft_remove (t : ftable) (x : text) : ftable :=
  match t with [] => [] | (y, f) :: r => if text_eqb x y then ft_remove r x else (y, f) :: ft_remove r x end.
Definition ft_set (t : ftable) (x : text) (f : fn) : ftable := (x, f) :: ft_remove t x.
(* HashMap::extend: later entries win *)
Definition ft_extend (t more : ftable) : ftable := fold_left (fun acc p => ft_set acc (fst p) (snd p)) more t.

(* Env::define on the innermost scope *)
Definition define (st : state) (x : text) (v : value) : option state :=
  match venv st with
  | [] => None
  | s :: r => Some (set_venv st (scope_set s x v :: r))
  end.
Definition lookup (st : state) (x : text) : option (option value) :=   (* None = no scope (panic) *)
  match venv st with [] => None | s :: _ => Some (scope_get s x) end.

(** ** heap *)
Definition alloc (st : state) (c : cell) : nat * state := (length (heap st), set_heap st (heap st ++ [c])).
Definition heap_get (h : heap_t) (a : nat) : option cell := nth_error h a.
Definition list_at (h : heap_t) (a : nat) : option (list value) :=
  match nth_error h a with Some (CList l) => Some l | _ => None end.
Definition heap_set (st : state) (a : nat) (c : cell) : state := set_heap st (update_nth (heap st) a c).

(** ** displayed form (Display for Value) *)
Definition t_NATIVE : text := [78; 65; 84; 73; 86; 69].

Fixpoint show (fuel : nat) (h : heap_t) (v : value) : option text :=
  match v with
  | VNull => Some t_NULL
  | VNum f => Some (show_float f)
  | VBool b => Some (show_bool b)
  | VStr s => Some s
  | VObj _ => Some t_NATIVE
  | VList a =>
    match fuel with
    | O => None
    | S f =>
      match list_at h a with
      | None => Some [91; 93]
      | Some items =>
        option_map (cons 91)
        ((fix go (l : list value) (first : bool) : option text :=
           match l with
           | [] => Some [93]
           | x :: r =>
             match show f h x, go r false with
             | Some sx, Some sr => Some ((if first then [] else [44; 32]) ++ sx ++ sr)
             | _, _ => None
             end
           end) items true)
      end
    end
  end.

Definition show_v (st : state) (v : value) : option text := show (S (length (heap st))) (heap st) v.

(** ** the operator tables applied to values *)
Definition matches (p : vpat) (v : value) : bool :=
  match p, v with
  | PAny, _ => true
  | PNum, VNum _ | PStr, VStr _ | PBool, VBool _ | PList, VList _ | PNull, VNull | PObj, VObj _ => true
  | _, _ => false
  end.

Definition binop_eqb (a b : binop) : bool := String.eqb (binop_name a) (binop_name b).
Definition unop_eqb (a b : unop) : bool := String.eqb (unop_name a) (unop_name b).

Definition f_epsilon : float := 0x1p-52%float.

(* Interpreter::equals *)
Definition apply_equals (arms : list qarm) (a b : value) : option bool :=
  match find (fun r => matches (qa_l r) a && matches (qa_r r) b) arms with
  | None => None
  | Some r =>
    match qa_act r, a, b with
    | QEps, VNum x, VNum y => Some (PrimFloat.ltb (PrimFloat.abs (PrimFloat.sub x y)) f_epsilon)
    | QSame, VStr x, VStr y => Some (text_eqb x y)
    | QSame, VBool x, VBool y => Some (Bool.eqb x y)
    | QTrue, _, _ => Some true
    | QFalse, _, _ => Some false
    | _, _, _ => None
    end
  end.

(* Interpreter::is_truthy *)
Definition is_zero_f (f : float) : bool := PrimFloat.eqb f 0%float.
Definition apply_truthy (arms : list yarm) (v : value) : option bool :=
  (fix go (l : list yarm) : option bool :=
     match l with
     | [] => None
     | r :: rest =>
       if matches (ya_v r) v then
         match ya_act r, v with
         | YBoolValue, VBool b => Some b
         | YZeroFalse, VNum f => if is_zero_f f then Some false else go rest   (* guard failed: next arm *)
         | YConst b, _ => Some b
         | _, _ => None
         end
       else go rest
     end) arms.

Definition truthy (v : value) : option bool := apply_truthy truthy_arms v.
Definition equals (a b : value) : option bool := apply_equals equals_arms a b.

(** index arithmetic: Interpreter::index_of after the F3 repair *)
Definition usize_max : N := 18446744073709551615.
Definition index_of (idx : float) : N :=
  if PrimFloat.leb 1%float idx then to_usize (PrimFloat.sub idx 1%float) else usize_max.

Definition nth_N {A} (l : list A) (k : N) : option A :=
  if k <? N.of_nat (length l) then nth_error l (N.to_nat k) else None.

(** key equality of the map: PartialEq for Value *)
Fixpoint key_eq (fuel : nat) (h : heap_t) (a b : value) : bool :=
  match a, b with
  | VNull, VNull => true
  | VNum x, VNum y => PrimFloat.eqb x y
  | VBool x, VBool y => Bool.eqb x y
  | VStr x, VStr y => text_eqb x y
  | VObj x, VObj y => Nat.eqb x y
  | VList x, VList y =>
    match fuel with
    | O => false
    | S f =>
      match list_at h x, list_at h y with
      | Some lx, Some ly =>
        (fix go (l1 l2 : list value) : bool :=
           match l1, l2 with
           | [], [] => true
           | u :: r1, w :: r2 => key_eq f h u w && go r1 r2
           | _, _ => false
           end) lx ly
      | _, _ => false
      end
    end
  | _, _ => false
  end.
